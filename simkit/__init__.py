"""simkit -- seeded deterministic simulation core shared by the Onsager engines.

One run is identified by (property, hashseed h, base seed S, run index r).
Everything random in a run is drawn from random.Random(run_seed(property, S, r)).
See /verif/DESIGN.md section 3.
"""
