"""Worker process: executes runs of one engine/property on request.

Started by simkit.driver with a pinned environment (PYTHONHASHSEED, single
threaded BLAS/numba). Protocol: one JSON object per line on stdin, one JSON
object per line on the protocol fd (a dup of the original stdout); everything
the libraries print goes to stderr.
"""
import os
import sys

_proto = os.fdopen(os.dup(1), "w")
os.dup2(2, 1)
sys.stdout = sys.stderr

import faulthandler
import importlib
import json
import time
import traceback
import warnings

VERIF = os.path.dirname(os.path.dirname(os.path.abspath(__file__)))
REPO = os.environ.get("VERIF_REPO", "/repo")
sys.path.insert(0, VERIF)
sys.path.insert(0, REPO)

from simkit import core  # noqa: E402


def send(obj):
    _proto.write(json.dumps(obj, sort_keys=True) + "\n")
    _proto.flush()


def summarize(res, r, wall, want_ops):
    run = res.run
    out = {"r": r, "digest": res.digest, "nops": res.nops, "wall": wall,
           "faults": dict(run.faults), "probes": dict(run.probes), "opkinds": dict(run.opkinds),
           "bigrams": dict(run.bigrams), "states": sorted(run.states),
           "states_after_fault": sorted(run.states_after_fault), "checks": run.checks,
           "violation": res.violation.asdict() if res.violation else None}
    if want_ops or res.violation:
        out["ops"] = res.ops
    return out


def main():
    args = json.loads(sys.argv[1])
    prop, tier, S = args["prop"], args["tier"], args["seed"]
    hashseed = os.environ.get("PYTHONHASHSEED")
    assert os.environ.get("SIMKIT_PINNED") == "1", "worker must be started by simkit.driver"
    warnings.simplefilter("ignore")
    faulthandler.enable()
    import onsager
    here = os.path.realpath(os.path.dirname(onsager.__file__))
    want = os.path.realpath(os.path.join(REPO, "onsager"))
    if here != want:
        send({"fatal": "onsager imported from {} not {}".format(here, want)})
        return 2
    mod = importlib.import_module("engines." + args["engine"])
    engine = mod.Engine(prop, tier)
    run_timeout = float(args.get("run_timeout", 300))
    send({"ready": True, "hashseed": hashseed, "pid": os.getpid()})
    for line in sys.stdin:
        line = line.strip()
        if not line:
            continue
        cmd = json.loads(line)
        if cmd["cmd"] == "quit":
            break
        faulthandler.dump_traceback_later(run_timeout, exit=True)
        t0 = time.monotonic()
        try:
            if cmd["cmd"] == "run":
                r = cmd["r"]
                rng = core.make_rng(prop, S, r)
                world = engine.draw_world(rng)
                nops = engine.draw_length(rng)
                res = core.execute(engine, world, rng=rng, nops=nops, repo_root=REPO)
                out = summarize(res, r, time.monotonic() - t0, cmd.get("want_ops", False))
                out["world"] = world
                if res.violation is not None and not cmd.get("no_min") and \
                        res.violation.oracle not in cmd.get("no_min_oracles", ()):
                    sig = res.violation.signature()
                    ops0 = res.ops
                    faulthandler.cancel_dump_traceback_later()
                    faulthandler.dump_traceback_later(run_timeout + 400, exit=True)
                    mops, tried = core.minimise(engine, world, ops0, sig, REPO,
                                                budget=int(args.get("min_budget", 200)),
                                                shrink_op=getattr(engine, "shrink_op", None),
                                                deadline=float(args.get("min_deadline", 120)))
                    res2 = core.execute(engine, world, ops=mops, repo_root=REPO)
                    if res2.violation is None or res2.violation.signature()[:2] != sig[:2]:
                        mops, res2 = ops0, core.execute(engine, world, ops=ops0, repo_root=REPO)
                    out["min"] = {"ops": mops, "tried": tried, "from": len(ops0),
                                  "digest": res2.digest,
                                  "violation": res2.violation.asdict() if res2.violation else None}
                send(out)
            elif cmd["cmd"] == "replay":
                res = core.execute(engine, cmd["world"], ops=cmd["ops"], repo_root=REPO)
                out = summarize(res, cmd.get("r", -1), time.monotonic() - t0, False)
                send(out)
            else:
                send({"fatal": "unknown command " + cmd["cmd"]})
        except core.HarnessError as e:
            send({"r": cmd.get("r", -1), "harness_error": str(e)})
        except Exception:
            send({"r": cmd.get("r", -1), "harness_error": traceback.format_exc()})
        finally:
            faulthandler.cancel_dump_traceback_later()
    return 0


if __name__ == "__main__":
    sys.exit(main())
