"""Per-property tier budgets. Run counts (not wall time) define a tier, so the explored
set does not depend on the number of workers; wall caps only truncate (and say so)."""

CHECKS = {
    # prop: engine, runs per tier, hash seeds per tier, wall cap (s) per tier, determinism re-runs
    "C28": dict(engine="cellsim",
                quick=dict(runs=6000, hashseeds=[0, 1], wall=150, verify=16),
                thorough=dict(runs=150000, hashseeds=[0, 1, 2, 3], wall=1500, verify=64)),
    "C33": dict(engine="mcsim",
                quick=dict(runs=3000, hashseeds=[0, 1], wall=150, verify=16),
                thorough=dict(runs=30000, hashseeds=[0, 1, 2, 3], wall=1500, verify=64)),
    "C34": dict(engine="mcsim",
                quick=dict(runs=3000, hashseeds=[0, 1], wall=150, verify=16),
                thorough=dict(runs=40000, hashseeds=[0, 1, 2, 3], wall=1500, verify=64)),
    "C35": dict(engine="mcsim",
                quick=dict(runs=1500, hashseeds=[0, 1], wall=150, verify=16, jobs=8),
                thorough=dict(runs=50000, hashseeds=[0, 1, 2, 3], wall=1500, verify=64)),
    "C14": dict(engine="calcsim",
                quick=dict(runs=240, hashseeds=[0, 1], wall=170, verify=8),
                thorough=dict(runs=3000, hashseeds=[0, 1, 2, 3], wall=2400, verify=32)),
    "C13": dict(engine="calcsim",
                quick=dict(runs=200, hashseeds=[0, 1], wall=170, verify=8),
                thorough=dict(runs=2500, hashseeds=[0, 1, 2, 3], wall=2400, verify=32)),
}

LEVEL = "exploration"
