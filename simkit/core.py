"""Executor, event log, violation classification and delta-debugging minimiser.

Runs inside a worker process (see worker_main.py). Nothing here draws random
numbers except through the rng handed in, and nothing reads a clock in a way
that can reach the event log.
"""
import hashlib
import json
import os
import random
import traceback
from collections import Counter

FORMAT = "onsager-simkit-replay-1"


def run_seed(prop, S, r):
    """The one integer that decides a run."""
    return int(hashlib.sha256("{}:{}:{}".format(prop, S, r).encode()).hexdigest()[:16], 16)


def make_rng(prop, S, r):
    return random.Random(run_seed(prop, S, r))


def fhex(x):
    """Canonical text of a float for the event log (exact)."""
    try:
        return float(x).hex()
    except (TypeError, ValueError):
        return repr(x)


def short_hash(*parts):
    h = hashlib.sha256()
    for p in parts:
        h.update(repr(p).encode())
        h.update(b"|")
    return h.hexdigest()[:12]


def canon(op):
    return json.dumps(op, sort_keys=True, separators=(",", ":"))


class Violation(Exception):
    """A property oracle failed on the system under test."""

    def __init__(self, prop, oracle, detail=""):
        Exception.__init__(self, "{}:{}: {}".format(prop, oracle, detail))
        self.prop, self.oracle, self.detail = prop, oracle, str(detail)[:2000]
        self.op_index, self.op_kind = None, None

    def signature(self):
        return [self.prop, self.oracle, self.op_kind]

    def asdict(self):
        return {"property": self.prop, "oracle": self.oracle, "op_index": self.op_index,
                "op_kind": self.op_kind, "detail": self.detail}


class HarnessError(Exception):
    """Something went wrong inside /verif code; never reported as a violation."""


def raised_in_sut(exc, repo_root, also=()):
    """True iff the traceback of exc passes through the repository's onsager package
    (or code that it called), i.e. the exception was raised by or below the SUT.
    `also`: path fragments of packages that only ever run on behalf of the SUT (e.g. numba
    compiling a jitclass method lazily: the onsager source frame is then not on the stack)."""
    pkg = os.path.join(os.path.realpath(repo_root), "onsager") + os.sep
    tb = exc.__traceback__
    while tb is not None:
        fn = os.path.realpath(tb.tb_frame.f_code.co_filename)
        if fn.startswith(pkg) or any(a in fn for a in also):
            return True
        tb = tb.tb_next
    return False


class EventLog(object):
    def __init__(self):
        self.h = hashlib.sha256()
        self.n = 0
        self.lines = [] if os.environ.get("SIMKIT_KEEP_LOG") else None

    def add(self, index, op, obs):
        line = "{}|{}|{}\n".format(index, canon(op), obs)
        self.h.update(line.encode())
        self.n += 1
        if self.lines is not None:
            self.lines.append(line)

    def digest(self):
        return self.h.hexdigest()


class RunBase(object):
    """Base class for one execution: holds SUT, model and coverage counters."""

    def __init__(self):
        self.faults = Counter()      # fault kind -> times it actually fired
        self.probes = Counter()      # rare-branch probes
        self.opkinds = Counter()
        self.bigrams = Counter()
        self.states = set()          # abstract-state hashes
        self.states_after_fault = set()
        self.checks = 0              # oracle comparisons performed
        self._last_kind = None

    def note_state(self, *parts):
        h = short_hash(*parts)
        self.states.add(h)
        if sum(self.faults.values()) > 0:
            self.states_after_fault.add(h)

    def note_op(self, kind):
        self.opkinds[kind] += 1
        if self._last_kind is not None:
            self.bigrams[self._last_kind + ">" + kind] += 1
        self._last_kind = kind

    # engine API -----------------------------------------------------------
    def propose(self, rng):
        raise NotImplementedError

    def apply(self, index, op):
        raise NotImplementedError

    def finish(self):
        return ""

    def close(self):
        pass


class RunResult(object):
    def __init__(self):
        self.ops, self.violation, self.digest = [], None, None
        self.nops = 0
        self.run = None


def execute(engine, world, ops=None, rng=None, nops=0, repo_root="/repo"):
    """Run one history. ops=None: generate with rng for nops steps; else replay ops verbatim."""
    run = engine.new_run(world)
    log = EventLog()
    res = RunResult()
    res.run = run
    i = 0
    op = None
    try:
        try:
            while True:
                if ops is not None:
                    if i >= len(ops):
                        break
                    op = ops[i]
                else:
                    if i >= nops:
                        break
                    op = run.propose(rng)
                    if op is None:
                        break
                    # guarantee that what is recorded is what replay will see
                    op = json.loads(json.dumps(op))
                res.ops.append(op)
                run.note_op(op["op"])
                obs = run.apply(i, op)
                log.add(i, op, obs)
                i += 1
            op = {"op": "quiesce"}
            obs = run.finish()
            log.add(i, op, obs)
        except Violation as v:
            v.op_index, v.op_kind = i, op["op"]
            log.add(i, op, "VIOLATION " + v.oracle)
            res.violation = v
        except HarnessError:
            raise
        except Exception as e:  # classify: raised below the SUT, or in the harness?
            if raised_in_sut(e, repo_root, getattr(engine, "sut_packages", ())):
                v = Violation(engine.prop, "unexpected-exception",
                              "{}: {}\n{}".format(type(e).__name__, e,
                                                  "".join(traceback.format_tb(e.__traceback__)[-4:])))
                v.op_index, v.op_kind = i, op["op"] if op else None
                log.add(i, op, "VIOLATION unexpected-exception " + type(e).__name__)
                res.violation = v
            else:
                raise HarnessError("harness exception at op {} {}:\n{}".format(
                    i, canon(op) if op else None, traceback.format_exc())) from e
    finally:
        run.close()
    res.nops = i
    res.digest = log.digest()
    return res


# ---------------------------------------------------------------------------
# minimisation

def _same(res, sig):
    return res.violation is not None and res.violation.signature()[:2] == sig[:2]


def minimise(engine, world, ops, sig, repo_root, budget=200, shrink_op=None, deadline=None):
    """ddmin over the op list, then per-op argument shrinking.

    A candidate is accepted iff it fails with the same (property, oracle).
    Returns (ops, candidates_tried)."""
    import time
    t_end = time.monotonic() + (deadline or 120.0)
    tried = [0]

    def fails(cand):
        if tried[0] >= budget or time.monotonic() > t_end:
            return False
        tried[0] += 1
        try:
            r = execute(engine, world, ops=cand, repo_root=repo_root)
        except HarnessError:
            return False
        return _same(r, sig)

    cur = list(ops)
    n = 2
    while len(cur) >= 2:
        chunk = max(1, len(cur) // n)
        subsets = [cur[i:i + chunk] for i in range(0, len(cur), chunk)]
        reduced = False
        # try complements (delete one chunk)
        for k in range(len(subsets)):
            cand = [o for j, s in enumerate(subsets) if j != k for o in s]
            if cand and fails(cand):
                cur, n, reduced = cand, max(n - 1, 2), True
                break
        if not reduced:
            if chunk == 1:
                break
            n = min(len(cur), n * 2)
        if tried[0] >= budget or time.monotonic() > t_end:
            break
    # single deletions until fixpoint (cheap after ddmin)
    changed = True
    while changed and tried[0] < budget:
        changed = False
        for k in range(len(cur) - 1, -1, -1):
            cand = cur[:k] + cur[k + 1:]
            if cand and fails(cand):
                cur, changed = cand, True
    # argument shrinking
    if shrink_op is not None:
        for k in range(len(cur)):
            for alt in shrink_op(cur[k]):
                cand = cur[:k] + [alt] + cur[k + 1:]
                if fails(cand):
                    cur = cand
                    break
    return cur, tried[0]
