"""Parent process of a check: spawns pinned workers, schedules runs, verifies replays,
matches known findings, writes evidence. Never imports onsager."""
import argparse
import collections
import json
import os
import queue
import subprocess
import sys
import threading
import time

from . import config
from .core import FORMAT

VERIF = os.path.dirname(os.path.dirname(os.path.abspath(__file__)))
PY = "/venv/bin/python"
WORKER = os.path.join(VERIF, "simkit", "worker_main.py")


def repo_root():
    return os.environ.get("VERIF_REPO", "/repo")


def worker_env(hashseed):
    env = dict(os.environ)
    env.update({"PYTHONHASHSEED": str(hashseed), "SIMKIT_PINNED": "1", "ONSAGER_VERIF": "1",
                "OPENBLAS_NUM_THREADS": "1", "OMP_NUM_THREADS": "1", "MKL_NUM_THREADS": "1",
                "NUMBA_NUM_THREADS": "1", "PYTHONDONTWRITEBYTECODE": "1",
                "HDF5_USE_FILE_LOCKING": "FALSE", "VERIF_REPO": repo_root(),
                "NUMBA_CACHE_DIR": os.environ.get("NUMBA_CACHE_DIR", "/tmp/simkit-numba-cache")})
    env.pop("PYTHONPATH", None)
    return env


class Worker(object):
    def __init__(self, wid, hashseed, wargs, errdir):
        self.wid, self.hashseed = wid, hashseed
        self.errpath = os.path.join(errdir, "worker{}.err".format(wid))
        self.err = open(self.errpath, "w")
        self.p = subprocess.Popen([PY, "-B", WORKER, json.dumps(wargs)], stdin=subprocess.PIPE,
                                  stdout=subprocess.PIPE, stderr=self.err, env=worker_env(hashseed),
                                  cwd=VERIF, text=True, bufsize=1)
        self.alive = True

    def request(self, cmd):
        """Send one command, wait for its answer. None if the worker died."""
        try:
            self.p.stdin.write(json.dumps(cmd) + "\n")
            self.p.stdin.flush()
            line = self.p.stdout.readline()
        except (BrokenPipeError, OSError):
            line = ""
        if not line:
            self.alive = False
            return None
        return json.loads(line)

    def hello(self):
        line = self.p.stdout.readline()
        if not line:
            self.alive = False
            return None
        return json.loads(line)

    def close(self):
        try:
            if self.p.poll() is None:
                self.p.stdin.write('{"cmd":"quit"}\n')
                self.p.stdin.flush()
                self.p.stdin.close()
                self.p.wait(timeout=10)
        except Exception:
            pass
        if self.p.poll() is None:
            self.p.kill()
        self.err.close()

    def errtail(self, n=30):
        try:
            with open(self.errpath) as f:
                return "".join(f.readlines()[-n:])
        except OSError:
            return ""


def load_known():
    path = os.environ.get("SIMKIT_KNOWN_FINDINGS") or os.path.join(VERIF, "known_findings.json")   # override: self-test only
    if not os.path.exists(path):
        return []
    with open(path) as f:
        return json.load(f)


def match_known(known, prop, sig, minops, world):
    """An open finding matches only if signature, op-kind sequence of the minimised history and
    world class all agree (DESIGN appendix A.3)."""
    kinds = [o["op"] for o in minops]
    for k in known:
        if k.get("status") != "open" or k.get("property") != prop:
            continue
        if list(k.get("signature", []))[:2] != list(sig)[:2]:
            continue
        if [o["op"] for o in k.get("history", [])] != kinds:
            continue
        wc = k.get("world_class")
        if wc and any(world.get(key) != val for key, val in wc.items()):
            continue
        return k
    return None


def main(argv=None):
    ap = argparse.ArgumentParser(prog="check")
    ap.add_argument("prop")
    ap.add_argument("--tier", default=os.environ.get("VERIF_TIER", "quick"), choices=["quick", "thorough"])
    ap.add_argument("--replay")
    ap.add_argument("--runs", type=int)
    ap.add_argument("--jobs", type=int, default=int(os.environ.get("VERIF_JOBS", "0")) or (os.cpu_count() or 4))
    ap.add_argument("--wall", type=float)
    ap.add_argument("--first", type=int, default=0, help="first run index")
    ap.add_argument("--no-evidence", action="store_true")
    ap.add_argument("--keep-going", action="store_true")
    ap.add_argument("--digests", help="write {run: event-log digest} JSON here (determinism self-test)")
    a = ap.parse_args(argv)
    prop = a.prop
    if prop not in config.CHECKS:
        print("unknown property " + prop)
        return 2
    spec = config.CHECKS[prop]
    tier = spec[a.tier]
    try:
        S = int(os.environ.get("VERIF_SEED", "1"))
    except ValueError:
        S = 1
    errdir = os.path.join("/tmp", "simkit-{}-{}".format(prop, os.getpid()))
    os.makedirs(errdir, exist_ok=True)
    # per-run watchdog: generous, it only classifies genuine hangs (a loaded machine must not turn into INCOMPLETE)
    wargs = {"engine": spec["engine"], "prop": prop, "tier": a.tier, "seed": S,
             "run_timeout": 1500 if a.tier == "thorough" else 700}
    if a.replay:
        return do_replay(a.replay, wargs, errdir)
    return do_check(a, prop, spec, tier, S, wargs, errdir)


def head_of(path):
    try:
        return subprocess.run(["git", "-C", path, "rev-parse", "HEAD"], capture_output=True,
                              text=True, timeout=20).stdout.strip()
    except Exception:
        return ""


def do_replay(path, wargs, errdir):
    with open(path) as f:
        rep = json.load(f)
    if rep.get("format") != FORMAT:
        print("HARNESS-ERROR not a replay file: " + path)
        return 2
    wargs = dict(wargs, prop=rep["property"], seed=rep["seed"], engine=rep["engine"])
    w = Worker(0, rep["hashseed"], wargs, errdir)
    hello = w.hello()
    if hello is None or "fatal" in hello:
        print("HARNESS-ERROR worker failed to start: {}\n{}".format(hello, w.errtail()))
        return 2
    out = w.request({"cmd": "replay", "world": rep["world"], "ops": rep["ops"]})
    w.close()
    if out is None:
        print("INCOMPLETE replay worker died\n" + w.errtail())
        return 3
    if "harness_error" in out:
        print("HARNESS-ERROR " + out["harness_error"])
        return 2
    v = out["violation"]
    exp = rep["violation"]
    if v is None:
        print("replay: no violation (expected {} at op {})".format(exp["oracle"], exp["op_index"]))
        return 0
    same = (v["oracle"] == exp["oracle"] and v["op_index"] == exp["op_index"]
            and out["digest"] == rep["log_digest"])
    print("replay: {} at op {} ({}) digest {} -- {}".format(
        v["oracle"], v["op_index"], v["op_kind"], out["digest"][:16],
        "reproduces recorded violation exactly" if same else "DIFFERS from recorded violation"))
    print("detail: " + v["detail"][:600])
    print("VIOLATION property={} replay={}".format(rep["property"], path))
    return 1


def do_check(a, prop, spec, tier, S, wargs, errdir):
    t0 = time.monotonic()
    nruns = a.runs if a.runs is not None else tier["runs"]
    wall_cap = a.wall if a.wall is not None else tier["wall"]
    hashseeds = list(tier["hashseeds"])
    # at least one worker per hash seed, so the run -> hash seed map never depends on the worker count
    jobs = max(len(hashseeds), min(a.jobs, tier.get("jobs", a.jobs)))
    nverify = min(tier["verify"], nruns)
    known = load_known()

    # ---- spawn
    workers = []
    for wid in range(jobs):
        workers.append(Worker(wid, hashseeds[wid % len(hashseeds)], wargs, errdir))
    fatal = []
    for w in workers:
        h = w.hello()
        if h is None or "fatal" in h:
            fatal.append("worker {}: {}\n{}".format(w.wid, h, w.errtail()))
    if fatal:
        for w in workers:
            w.close()
        print("HARNESS-ERROR workers failed to start:\n" + "\n".join(fatal[:2]))
        return 2

    # ---- schedule
    queues = {h: collections.deque() for h in hashseeds}
    for r in range(a.first, a.first + nruns):
        queues[hashseeds[r % len(hashseeds)]].append(r)
    lock = threading.Lock()
    results = {}            # r -> result
    ran_on = {}             # r -> wid
    incomplete = []         # runs whose worker died
    harness_errors = []
    stop = threading.Event()
    nmin = collections.Counter()

    def main_phase(w):
        while not stop.is_set() and w.alive:
            with lock:
                q = queues[w.hashseed]
                if not q:
                    return
                r = q.popleft()
                skip = [o for o, c in nmin.items() if c >= 3]     # at most 3 minimisations per oracle
            want = r < a.first + 3
            out = w.request({"cmd": "run", "r": r, "want_ops": want, "no_min_oracles": skip})
            with lock:
                if out is None:
                    incomplete.append((r, w.wid, w.errtail(40)))
                    return
                if "harness_error" in out:
                    harness_errors.append((r, out["harness_error"]))
                    continue
                results[r] = out
                ran_on[r] = w.wid
                if out["violation"] is not None:
                    nmin[out["violation"]["oracle"]] += 1
            if time.monotonic() - t0 > wall_cap:
                stop.set()

    threads = [threading.Thread(target=main_phase, args=(w,), daemon=True) for w in workers]
    for t in threads:
        t.start()
    for t in threads:
        t.join()
    truncated = stop.is_set() and any(queues[h] for h in hashseeds)

    # ---- determinism self-check: re-run the first runs on a different worker, digests must agree
    vq = {w.wid: collections.deque() for w in workers}
    by_hash = collections.defaultdict(list)
    for w in workers:
        if w.alive:
            by_hash[w.hashseed].append(w)
    nsched = 0
    for r in sorted(results)[:nverify]:
        h = hashseeds[r % len(hashseeds)]
        cands = [w for w in by_hash[h] if w.wid != ran_on[r]] or by_hash[h]
        if cands:
            vq[cands[r % len(cands)].wid].append(r)
            nsched += 1
    mism = []
    vdone = [0]

    def verify_phase(w):
        while vq[w.wid] and w.alive:
            r = vq[w.wid].popleft()
            out = w.request({"cmd": "run", "r": r, "no_min": True})
            with lock:
                if out is None:
                    incomplete.append((r, w.wid, w.errtail(40)))
                    return
                if "harness_error" in out:
                    harness_errors.append((r, out["harness_error"]))
                    continue
                vdone[0] += 1
                if out["digest"] != results[r]["digest"]:
                    mism.append(r)

    threads = [threading.Thread(target=verify_phase, args=(w,), daemon=True) for w in workers]
    for t in threads:
        t.start()
    for t in threads:
        t.join()

    # ---- violations: replay files, fresh-process verification, known findings
    viols = [results[r] for r in sorted(results) if results[r]["violation"] is not None]
    reported, known_hits, groups = [], [], {}
    os.makedirs(os.path.join(VERIF, "replays"), exist_ok=True)
    head = head_of(repo_root())
    for out in viols:
        m = out.get("min")
        if m and m.get("violation"):
            ops, v, dig, mfrom = m["ops"], m["violation"], m["digest"], m["from"]
        else:
            ops, v, dig, mfrom = out["ops"], out["violation"], out["digest"], None
        key = (v["oracle"], tuple(o["op"] for o in ops)) if mfrom is not None else (v["oracle"], None)
        if key in groups:
            groups[key]["count"] += 1
            continue
        if mfrom is None and any(k[0] == v["oracle"] for k in groups):
            # unminimised duplicate of an oracle already reported
            for k in groups:
                if k[0] == v["oracle"]:
                    groups[k]["count"] += 1
                    break
            continue
        hs = hashseeds[out["r"] % len(hashseeds)]
        rep = {"format": FORMAT, "property": prop, "engine": spec["engine"], "hashseed": hs, "seed": S,
               "run": out["r"], "tier": a.tier, "world": out["world"], "ops": ops, "violation": v,
               "log_digest": dig, "repo_head": head, "minimised_from": mfrom}
        groups[key] = {"count": 1, "rep": rep}
    workers_alive = [w for w in workers if w.alive]
    for key, g in groups.items():
        rep = g["rep"]
        # fresh-process replay
        vw = Worker(1000, rep["hashseed"], wargs, errdir)
        ok = False
        if vw.hello() is not None:
            o2 = vw.request({"cmd": "replay", "world": rep["world"], "ops": rep["ops"]})
            if o2 and o2.get("violation") and o2["violation"]["oracle"] == rep["violation"]["oracle"] \
                    and o2["violation"]["op_index"] == rep["violation"]["op_index"] \
                    and o2["digest"] == rep["log_digest"]:
                ok = True
        vw.close()
        rep["replay_verified"] = ok
        kf = match_known(known, prop, [prop, rep["violation"]["oracle"]], rep["ops"], rep["world"])
        if kf is not None:
            known_hits.append((kf, g["count"]))
            continue
        name = "{}-s{}-r{}-{}.json".format(prop, S, rep["run"], rep["violation"]["oracle"].replace("/", "_"))
        path = os.path.join(VERIF, "replays", name)
        with open(path, "w") as f:
            json.dump(rep, f, indent=1, sort_keys=True)
        reported.append((path, rep, g["count"]))
    for w in workers:
        w.close()

    # ---- evidence
    wall = time.monotonic() - t0
    agg = dict(faults=collections.Counter(), probes=collections.Counter(), opkinds=collections.Counter(),
               bigrams=collections.Counter())
    states, states_nt = set(), set()
    nops = nchecks = 0
    worlds = collections.Counter()
    for r, out in results.items():
        for k in ("faults", "probes", "opkinds", "bigrams"):
            agg[k].update(out[k])
        states.update(out["states"])
        states_nt.update(out["states_after_fault"])
        nops += out["nops"]
        nchecks += out["checks"]
        worlds[out["world"].get("class", out["world"].get("crystal", "?"))] += 1
    samples = []
    for r in sorted(results)[:3]:
        if "ops" in results[r]:
            samples.append({"run": r, "hashseed": hashseeds[r % len(hashseeds)], "world": results[r]["world"],
                            "ops": results[r]["ops"][:40], "ops_total": len(results[r]["ops"])})
    engine_mod_info = ENGINE_INFO.get(spec["engine"], {})
    ev = {
        "property_id": prop, "tier": a.tier, "seed": S, "level": config.LEVEL,
        "coverage": {
            "evaluations": len(results),
            "distinct_nontrivial": len(states_nt),
            "rule": engine_mod_info.get("rule", ""),
            "samples": samples,
            "ops": nops, "oracle_comparisons": nchecks,
            "distinct_states_total": len(states),
            "runs_per_hour": int(len(results) / wall * 3600) if wall > 0 else 0,
            "ops_per_hour": int(nops / wall * 3600) if wall > 0 else 0,
            "seeds": "VERIF_SEED={} runs {}..{}".format(S, a.first, a.first + nruns - 1),
            "hashseeds": hashseeds,
            "fault_kinds_fired": dict(sorted(agg["faults"].items())),
            "probes": dict(sorted(agg["probes"].items())),
            "op_kinds": dict(sorted(agg["opkinds"].items())),
            "op_bigrams_distinct": len(agg["bigrams"]),
            "worlds": dict(sorted(worlds.items())),
            "simulated_time": "logical steps only ({} ops); no claimed surface has a timer".format(nops),
            "components": engine_mod_info.get("components", {}),
            "determinism_selfcheck": {"reruns": vdone[0], "mismatches": len(mism), "runs": mism[:10]},
            "truncated": truncated, "jobs": jobs,
            "known_findings": [k["what"] for k, _ in known_hits],
            "repo_head": head, "repo": repo_root(),
        },
        "assumptions": engine_mod_info.get("assumptions", []),
        "wall_s": round(wall, 2),
        "violations": sum(c for _, _, c in reported),
    }
    if not a.no_evidence:
        os.makedirs(os.path.join(VERIF, "evidence"), exist_ok=True)
        with open(os.path.join(VERIF, "evidence", prop + ".json"), "w") as f:
            json.dump(ev, f, indent=1, sort_keys=True)

    if a.digests:
        with open(a.digests, "w") as f:
            json.dump({str(r): results[r]["digest"] for r in sorted(results)}, f)

    # ---- report
    print("{} tier={} seed={} runs={} ops={} checks={} states={} (after-fault {}) wall={:.1f}s jobs={} "
          "hashseeds={}".format(prop, a.tier, S, len(results), nops, nchecks, len(states), len(states_nt),
                                wall, jobs, hashseeds))
    print("faults fired: " + json.dumps(dict(sorted(agg["faults"].items()))))
    print("probes: " + json.dumps(dict(sorted(agg["probes"].items()))))
    for kf, c in known_hits:
        print("KNOWN-FINDING: property={} {} ({} run(s))".format(prop, kf["what"], c))
    rc = 0
    for path, rep, c in reported:
        v = rep["violation"]
        print("violation: oracle={} op#{}({}) in {} run(s); minimised {} -> {} ops; replay_verified={}".format(
            v["oracle"], v["op_index"], v["op_kind"], c, rep["minimised_from"], len(rep["ops"]),
            rep["replay_verified"]))
        print("  ops: " + json.dumps(rep["ops"])[:1500])
        print("  detail: " + v["detail"][:800].replace("\n", "\n    "))
        print("VIOLATION property={} replay={}".format(prop, path))
        rc = 1
    if harness_errors:
        print("HARNESS-ERROR in {} run(s); first (run {}):\n{}".format(
            len(harness_errors), harness_errors[0][0], harness_errors[0][1][-3000:]))
        rc = rc or 2
    if mism:
        print("HARNESS-ERROR determinism self-check failed for runs {}".format(mism[:10]))
        rc = rc or 2
    if incomplete:
        r, wid, tail = incomplete[0]
        print("INCOMPLETE worker {} died or hung in run {}:\n{}".format(wid, r, tail[-3000:]))
        rc = rc or 3
    if truncated and len(results) < max(1, nruns // 4):
        print("INCOMPLETE wall cap {}s reached after {} of {} runs".format(wall_cap, len(results), nruns))
        rc = rc or 3
    elif truncated:
        print("note: wall cap {}s reached after {} of {} runs (recorded as truncated)".format(
            wall_cap, len(results), nruns))
    if rc == 0:
        print("OK property={} held on everything explored".format(prop))
    try:
        import shutil
        shutil.rmtree(errdir, ignore_errors=True)
    except Exception:
        pass
    return rc


ENGINE_INFO = {}


def register_engine_info():
    """Static descriptions (rule text, components, assumptions) live next to the engines as JSON-able
    dicts so the parent does not have to import onsager."""
    path = os.path.join(VERIF, "engines", "info.json")
    if os.path.exists(path):
        with open(path) as f:
            ENGINE_INFO.update(json.load(f))


register_engine_info()
