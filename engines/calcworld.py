"""Worlds, input pools and the simulated disk for calcsim (C13, C14)."""
import io
import os
import random

import h5py
import numpy as np

from onsager import OnsagerCalc, crystal

A = 1.0


def _crystals():
    s34 = np.sqrt(0.75)
    return {
        "sc": (lambda: crystal.Crystal(A * np.eye(3), [np.zeros(3)]), 1.01),
        "fcc": (lambda: crystal.Crystal.FCC(A), 0.8),
        "bcc": (lambda: crystal.Crystal.BCC(A), 0.87),
        "hcp": (lambda: crystal.Crystal.HCP(A), 1.01),
        "diamond": (lambda: crystal.Crystal(A * np.array([[0, .5, .5], [.5, 0, .5], [.5, .5, 0]]),
                                            [np.zeros(3), np.array([.25, .25, .25])]), 0.45),
        "square": (lambda: crystal.Crystal(A * np.eye(2), [np.zeros(2)]), 1.01),
        "tria": (lambda: crystal.Crystal(A * np.array([[.5, .5], [-s34, s34]]), [np.zeros(2)]), 1.01),
        "honey": (lambda: crystal.Crystal(A * np.array([[.5, .5], [-s34, s34]]),
                                          [np.array([1 / 3, 2 / 3]), np.array([2 / 3, 1 / 3])]), 0.6),
        # non-empty unit-cell vector basis (origin-state branches of Lij)
        "b2disp": (lambda: crystal.Crystal(A * np.eye(3), [np.zeros(3), np.array([.45, .45, .45])]), 0.99),
        "triadisp": (lambda: crystal.Crystal(A * np.array([[1., 0.], [0., np.sqrt(3.)]]),
                                             [np.zeros(2), np.array([.5, .4])]), 1.2),
        # two vacancy Wyckoff sets
        "rect2w": (lambda: crystal.Crystal(A * np.array([[1., 0.], [0., 1.6]]),
                                           [np.zeros(2), np.array([.5, .35]), np.array([.5, .65])]), 0.85),
        "tet2w": (lambda: crystal.Crystal(A * np.diag([1., 1., 1.6]),
                                          [np.zeros(3), np.array([.5, .5, .35]), np.array([.5, .5, .65])]), 0.95),
        # two Wyckoff sets whose site indices interleave (sitelist [[0, 2], [1, 3]]); origin states too
        # diffusing species is chemistry index 1 (oxygen sublattice of NbO, three sites, one Wyckoff set)
        "nbo": (lambda: crystal.Crystal(A * np.eye(3),
                                        [[np.array([0, .5, .5]), np.array([.5, 0, .5]), np.array([.5, .5, 0])],
                                         [np.array([.5, 0, 0]), np.array([0, .5, 0]), np.array([0, 0, .5])]],
                                        ["Nb", "O"]), 0.80),
        # low symmetry: point group 2 only (invariant tensors between vector stars need not be symmetric),
        # one and two sites per cell (the latter with origin states), and a monoclinic 3-D cell
        "oblique": (lambda: crystal.Crystal(A * np.array([[1., 0.3], [0., 1.1]]), [np.zeros(2)]), 1.2),
        "oblique2": (lambda: crystal.Crystal(A * np.array([[1., 0.3], [0., 1.1]]),
                                             [np.zeros(2), np.array([0.3, 0.45])]), 0.9),
        "mono": (lambda: crystal.Crystal(A * np.array([[1., 0., 0.25], [0., 1.1, 0.], [0., 0., 0.9]]),
                                         [np.zeros(3)]), 1.15),
        # symmetry switched off by the user (NOSYM=True): the group is the identity alone, three distinct
        # jump types along x, y, z; anything that re-derives the group after a reload changes the physics
        "scnosym": (lambda: crystal.Crystal(A * np.eye(3), [np.zeros(3)], NOSYM=True), 1.01),
        "rect4i": (lambda: crystal.Crystal(A * np.array([[1., 0.], [0., 1.6]]),
                                           [np.array([0., .2]), np.array([.5, .35]), np.array([0., .8]),
                                            np.array([.5, .65])]), 0.85),
        # a SPARSE, user-selected jump network (third entry: the jump lengths kept): layered tetragonal cell,
        # c/a = 2.5, in-plane and interlayer first-neighbour hops only. Some states reached with three jumps are
        # shorter than the longest jump, so the order of stars (and of vector stars) is not the same at every range
        "tetlayer": (lambda: crystal.Crystal(A * np.diag([1., 1., 2.5]), [np.zeros(3)]), 2.55, (1.0, 2.5)),
    }


def world_jumpnetwork(crys, chem, cut, lengths=None):
    """The jump network of a world: everything within the cutoff, or (sparse worlds) only the jump types whose
    length is one of `lengths` -- a selection a user makes by hand from crys.jumpnetwork()."""
    jn = crys.jumpnetwork(chem, cut)
    if lengths is not None:
        jn = [jl for jl in jn if any(abs(np.sqrt(np.dot(jl[0][1], jl[0][1])) - A * L) < 1e-6 for L in lengths)]
    return jn


CRYSTALS = _crystals()
CHEAP = ("sc", "fcc", "bcc", "diamond", "square", "tria", "honey", "triadisp", "rect2w")
QUICK_WORLDS = ("sc", "fcc", "bcc", "hcp", "diamond", "square", "tria", "honey", "b2disp", "triadisp", "rect2w", "rect4i", "nbo",
                "oblique", "oblique2", "mono", "scnosym", "tetlayer")
ALL_WORLDS = QUICK_WORLDS + ("tet2w",)
if os.environ.get("CALCSIM_WORLDS"):      # A/B experiments only (e.g. "was this caught before world X existed?")
    QUICK_WORLDS = ALL_WORLDS = tuple(os.environ["CALCSIM_WORLDS"].split(","))
CHEM = 0
CHEMS = {"nbo": 1}       # world -> chemistry index of the diffusing species (default 0)


class SimFile(io.RawIOBase):
    """In-process 'file' owned by the simulator: h5py writes into it through the Python file-object
    driver. Every write/truncate/flush is logged as (kind, offset, length)."""

    def __init__(self, data=b""):
        io.RawIOBase.__init__(self)
        self.buf = bytearray(data)
        self.pos = 0
        self.log = []

    def readable(self):
        return True

    def writable(self):
        return True

    def seekable(self):
        return True

    def tell(self):
        return self.pos

    def seek(self, off, whence=0):
        if whence == 0:
            self.pos = off
        elif whence == 1:
            self.pos += off
        else:
            self.pos = len(self.buf) + off
        return self.pos

    def readinto(self, b):
        n = max(0, min(len(b), len(self.buf) - self.pos))
        b[:n] = self.buf[self.pos:self.pos + n]
        self.pos += n
        return n

    def write(self, b):
        n = len(b)
        end = self.pos + n
        if end > len(self.buf):
            self.buf.extend(b"\0" * (end - len(self.buf)))
        self.buf[self.pos:end] = bytes(b)
        self.log.append(("w", self.pos, n))
        self.pos = end
        return n

    def truncate(self, size=None):
        size = self.pos if size is None else size
        if size < len(self.buf):
            del self.buf[size:]
        else:
            self.buf.extend(b"\0" * (size - len(self.buf)))
        self.log.append(("t", size, 0))
        return size

    def flush(self):
        if not self.closed:
            self.log.append(("f", 0, 0))

    def image(self):
        return bytes(self.buf)


class WorldData(object):
    """Per-worker cache for one crystal: pristine calculators (never handed to a caller) and their
    HDF5 images, by (Nthermo, NGFmax)."""

    def __init__(self, name):
        self.name = name
        make, cut = CRYSTALS[name][:2]
        self.lengths = CRYSTALS[name][2] if len(CRYSTALS[name]) > 2 else None
        self.crys = make()
        self.cut = cut
        self.chem = CHEMS.get(name, CHEM)
        self.sitelist = self.crys.sitelist(self.chem)
        self.jumpnetwork = world_jumpnetwork(self.crys, self.chem, cut, self.lengths)
        self.pristine = {}
        self.images = {}

    def construct(self, N, NGF):
        return OnsagerCalc.VacancyMediated(self.crys, self.chem, self.sitelist, self.jumpnetwork, N, NGFmax=NGF)

    def reference(self, N, NGF):
        key = (int(N), int(NGF))
        if key not in self.pristine:
            self.pristine[key] = self.construct(*key)
        return self.pristine[key]

    def image(self, N, NGF):
        key = (int(N), int(NGF))
        if key not in self.images:
            calc = self.construct(*key)     # a separate object: the reference must never be the image source
            f = SimFile()
            with h5py.File(f, "w") as h:
                calc.addhdf5(h.create_group("calc"))
            self.images[key] = f.image()
        return self.images[key]


_WORLDS = {}


def world_data(name):
    if name not in _WORLDS:
        _WORLDS[name] = WorldData(name)
    return _WORLDS[name]


# ---------------------------------------------------------------------------------------------
# input pool

def canonical_classes(calc):
    """tag type -> list of classes (each a sorted list of tag strings), ordered by smallest member,
    so that pool values do not depend on hash-randomised class order."""
    out = {}
    for t, classes in calc.tags.items():
        out[t] = sorted((sorted(c) for c in classes), key=lambda c: c[0])
    return out


class Pool(object):
    """4-8 physical inputs (kT, {tag: (prefactor, energy)}) engineered for cache hazards."""

    def __init__(self, refcalc, seed, nwyckoff):
        rnd = random.Random(seed)
        cl = canonical_classes(refcalc)
        self.inputs = []     # list of dict(kT=..., tags={...}, kind=..., extreme=bool)

        def base(kind="base"):
            kT = rnd.choice((0.5, 1.0, 1.5))
            vals = {}
            for t in ("vacancy", "solute"):
                for c in cl[t]:
                    vals[(t, c[0])] = (rnd.uniform(0.6, 1.8), rnd.uniform(0.0, 0.4) if len(cl[t]) > 1 else 0.0)
            for c in cl["solute-vacancy"]:
                vals[("solute-vacancy", c[0])] = (rnd.uniform(0.7, 1.4), rnd.uniform(-0.4, 0.4))
            for c in cl["omega0"]:
                vals[("omega0", c[0])] = (rnd.uniform(0.7, 1.5), rnd.uniform(0.4, 1.4))
            for t in ("omega1", "omega2"):
                for c in cl[t]:
                    if rnd.random() < 0.4:      # the rest is back-filled by LIMB inside tags2preene
                        vals[(t, c[0])] = (rnd.uniform(0.7, 1.5), rnd.uniform(0.3, 1.5))
            return {"kT": kT, "vals": vals, "kind": kind, "extreme": False}

        def clone(inp, kind):
            return {"kT": inp["kT"], "vals": dict(inp["vals"]), "kind": kind, "extreme": inp["extreme"]}

        b0 = base()
        self.inputs.append(b0)
        b1 = base()
        self.inputs.append(b1)
        # same vacancy data (same cache key), different solute data
        s = clone(b0, "same-vacancy")
        for k in list(s["vals"]):
            if k[0] in ("solute-vacancy", "omega2"):
                p, e = s["vals"][k]
                s["vals"][k] = (p, e + rnd.uniform(-0.3, 0.3))
        self.inputs.append(s)
        # near-duplicate: one transition energy moved by 3e-7 kT: allclose-equal key, different bytes
        nd = clone(b0, "near-duplicate")
        k0 = ("omega0", cl["omega0"][0][0])
        nd["vals"][k0] = (nd["vals"][k0][0], nd["vals"][k0][1] + 3e-7 * nd["kT"])
        self.inputs.append(nd)
        # kT and all energies doubled: bit-identical scaled inputs from a different user input
        db = clone(b1, "doubled")
        db["kT"] = 2 * b1["kT"]
        db["vals"] = {k: (p, 2 * e) for k, (p, e) in b1["vals"].items()}
        self.inputs.append(db)
        # tracer: solute == host
        tr = clone(b1, "tracer")
        tr["vals"] = {k: v for k, v in b1["vals"].items() if k[0] in ("vacancy", "omega0")}
        tr["tracer"] = True
        self.inputs.append(tr)
        # cold: every barrier raised by 24 kT, so that all rates (and the transport coefficients) are ~1e-11 in
        # absolute terms; anything with an absolute threshold (a "clean-up" of small numbers) shows here
        cd = clone(b1, "cold")
        for k in list(cd["vals"]):
            if k[0] in ("omega0", "omega1", "omega2"):
                p_, e_ = cd["vals"][k]
                cd["vals"][k] = (p_, e_ + 24.0 * cd["kT"])
        self.inputs.append(cd)
        # THz: attempt frequencies as a user working in SI units enters them (all transition prefactors x 1e13):
        # rates and coefficients ~1e12 in absolute terms, the other end of the absolute scale
        hz = clone(b0, "thz")
        for k in list(hz["vals"]):
            if k[0] in ("omega0", "omega1", "omega2"):
                p_, e_ = hz["vals"][k]
                hz["vals"][k] = (p_ * 1e13, e_)
        self.inputs.append(hz)
        # differs from the base input in ONE vacancy transition barrier only, the highest one (the slowest jump type):
        # whatever is derived from the fastest rate alone is bit-identical for the two, the rest is not
        ob = clone(b0, "one-barrier")
        if len(cl["omega0"]) > 1:
            kmax = max((("omega0", c[0]) for c in cl["omega0"]), key=lambda k: ob["vals"][k][1])
            ob["vals"][kmax] = (ob["vals"][kmax][0], ob["vals"][kmax][1] + 0.37)
            self.inputs.append(ob)
        # the second base input with every transition energy lowered by the lowest vacancy barrier (lowest barrier =
        # 0): a different physical input whose scaled arrays equal what "work relative to the lowest barrier"
        # arithmetic makes of the original
        sh = clone(b1, "zero-min")
        emin = min(sh["vals"][("omega0", c[0])][1] for c in cl["omega0"])
        for k in list(sh["vals"]):
            if k[0] in ("omega0", "omega1", "omega2"):
                p_, e_ = sh["vals"][k]
                sh["vals"][k] = (p_, e_ - emin)
        self.inputs.append(sh)
        # ... and the same at the level of the scaled arrays: the second base input with bFT0 - min(bFT0), bit for bit
        sa = clone(b1, "zero-min-arrays")
        sa["zero_min_arrays"] = True
        self.inputs.append(sa)
        if nwyckoff > 1:
            # differs only in one vacancy-site energy (catches keys that ignore a field)
            w = clone(b0, "one-site-energy")
            k1 = ("vacancy", cl["vacancy"][-1][0])
            w["vals"][k1] = (w["vals"][k1][0], w["vals"][k1][1] + 0.25)
            self.inputs.append(w)
        # large omega2. Calibrated (tools/calibrate notes in DESIGN 4.1): the deviation between a pristine
        # calculator and one rebuilt from a reloaded crystal (different k-point order, GF differs ~1e-12) is
        # amplified like omega2: 1e-5 relative at e^22 but <1e-9 at e^12; with origin states Lij's origin-state
        # correction amplifies round-off like omega2^3 (3e-5 at e^8, garbage at e^14). So: e^12 without origin
        # states, e^3 with; the large-omega2 *branch* is reached through large_om2=0 on every input instead.
        lg = clone(b0, "large-omega2")
        ex = 3.0 if len(refcalc.OSindices) > 0 else 12.0
        for c in cl["omega2"]:
            lg["vals"][("omega2", c[0])] = (1.0, -ex * lg["kT"])
        lg["extreme"] = True
        self.extreme_tol = 1e-6
        self.inputs.append(lg)
        self.classes = cl

    def usertagdict(self, k):
        """Every member of a class carries the class value, so any calculator finds it by any
        representative."""
        inp = self.inputs[k % len(self.inputs)]
        d = {}
        for (t, first), v in inp["vals"].items():
            for c in self.classes[t]:
                if c[0] == first:
                    for tag in c:
                        d[tag] = v
        return d

    def arrays(self, calc, k):
        """Scaled inputs for calculator `calc`, produced by its own tags2preene/preene2betafree."""
        inp = self.inputs[k % len(self.inputs)]
        td = calc.tags2preene(self.usertagdict(k))
        if inp.get("tracer"):
            td.update(calc.maketracerpreene(**td))
        bF = calc.preene2betafree(inp["kT"], **td)
        out = [np.array(x, dtype=float) for x in bF]
        if inp.get("zero_min_arrays"):
            out[3] = out[3] - out[3].min()
        return out

    def extreme(self, k):
        return self.inputs[k % len(self.inputs)]["extreme"]

    def kind(self, k):
        return self.inputs[k % len(self.inputs)]["kind"]

    def __len__(self):
        return len(self.inputs)
