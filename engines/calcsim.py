"""calcsim -- C14 and C13: a long-lived VacancyMediated calculator under arbitrary call histories.

C14: a scripted caller drives one calculator over a pool of cache-hazard inputs with caller-induced
     faults (scribbling on returned arrays, reuse of its input buffers, failing calls, foreign
     SetRates), cache clears, in-place re-ranging / re-gridding and restarts from HDF5 images on a
     simulated disk; every Lij result is compared with a reference memo from pristine calculators.
C13: twin mode: the calculator is saved in whatever state its history left it and reloaded; every
     later op goes to original and copy in lockstep and all observables are compared pairwise;
     component round trips run as further ops on the same disk.
See DESIGN.md sections 4.1 and 4.2.
"""
import copy
import io
import random

import h5py
import numpy as np
import yaml

from onsager import GFcalc, OnsagerCalc, PowerExpansion, cluster, crystal
from onsager import crystalStars as stars
from simkit.core import RunBase, Violation, fhex, short_hash

from engines.calcworld import ALL_WORLDS, CHEM, CRYSTALS, QUICK_WORLDS, Pool, SimFile, world_data, world_jumpnetwork

OM2 = {"default": {}, "small": {"large_om2": 0.0}, "large": {"large_om2": float("inf")}}
SCRIBBLES = ("scale", "zero", "nan", "add")
BADKINDS = ("nanT0", "infT0", "shortT1", "longT0", "nanV")
AUX = ("omegalist1", "omegalist2", "tags2preene", "preene2betafree", "tracer", "str", "states1", "states2", "interact")
COMPONENTS = ("gfcalc", "gfcalc-many", "thermo", "kinetic", "NNstar", "GFstarset", "vkinetic", "taylor", "yaml:crystal", "yaml:crystal-extra",
              "yaml:crystal-simple", "yaml:groupop", "yaml:pairstate", "yaml:clustersite", "yaml:cluster", "yaml:vtk", "vtkdict")


def tens_digest(out):
    return ",".join(fhex(x) for t in out for x in np.asarray(t, dtype=float).reshape(-1)[:4])


_EXTRA = []


def _extra_crystals():
    if not _EXTRA:
        _EXTRA.append(crystal.Crystal(np.eye(3), [[np.zeros(3), np.array([.5, .5, 0.]), np.array([.5, 0., .5]),
                                                   np.array([0., .5, .5])], [np.array([.5, .5, .5])]],
                                      ["U", "N"], spins=[[1, -1, -1, 1], [0]]))
        _EXTRA.append(crystal.Crystal(np.eye(3), [[np.zeros(3)], [np.array([.5, .5, .5])],
                                                  [np.array([.5, .5, 0.]), np.array([.5, 0., .5]), np.array([0., .5, .5])]],
                                      ["La", "Ga", "O"]))
        _EXTRA.append(crystal.Crystal(np.array([[1., 0.], [0., 1.3]]), [[np.zeros(2)], [np.array([.5, .5])]], ["A", "B"]))
        # a deliberately non-primitive cell (noreduce=True) and a crystal with its symmetry switched off
        _EXTRA.append(crystal.Crystal(np.diag([2., 1., 1.]), [np.zeros(3), np.array([.5, 0., 0.])], noreduce=True))
        _EXTRA.append(crystal.Crystal(np.diag([1., 1., 1.2]), [np.zeros(3)], NOSYM=True))
    return _EXTRA


_MANY = {}


def _many_type_gfcalcs():
    """Stand-alone Green-function calculators whose jump networks have more than ten symmetry-unique jump types
    (2-D oblique and triclinic Bravais lattices with long cutoffs, a two-site monoclinic cell): cheap to build
    (no star sets), and the only place where two-digit jump-type numbers occur."""
    if not _MANY:
        obl = crystal.Crystal(np.array([[1., 0.3], [0., 1.1]]), [np.zeros(2)])
        tric = crystal.Crystal(np.array([[1., 0.1, 0.25], [0., 1.1, 0.15], [0., 0., 0.9]]), [np.zeros(3)])
        mono2 = crystal.Crystal(np.array([[1., 0., 0.25], [0., 1.1, 0.], [0., 0., 0.9]]),
                                [np.zeros(3), np.array([0.3, 0.5, 0.4])])
        for name, c, cut in (("obl13", obl, 3.1), ("tric12", tric, 1.75), ("tric15", tric, 2.0), ("mono2x9", mono2, 1.4)):
            jn, sl = c.jumpnetwork(0, cut), c.sitelist(0)
            _MANY[name] = (c, sl, jn)
        # a DISCONNECTED network whose pieces are symmetry-equivalent: diamond with second-neighbour jumps only
        # (each fcc sublattice on its own; two diffusive zero modes at the Gamma point instead of one)
        dia = crystal.Crystal(np.array([[0, .5, .5], [.5, 0, .5], [.5, .5, 0]]), [np.zeros(3), np.array([.25, .25, .25])])
        jn2 = [jl for jl in dia.jumpnetwork(0, 0.72) if all(i == j for (i, j), dx in jl)]
        _MANY["diamond2nn"] = (dia, dia.sitelist(0), jn2)
    return _MANY


class Caller(object):
    """The scripted caller's private state for one calculator: every array it was ever handed and
    its persistent input buffers."""

    def __init__(self):
        self.rets = []       # arrays returned by Lij, in order
        self.buffers = None  # six persistent input arrays, or None


class Run(RunBase):
    def __init__(self, prop, world):
        RunBase.__init__(self)
        self.prop = prop
        self.w = world
        self.wd = world_data(world["crystal"])
        self.dim = self.wd.crys.dim
        self.N, self.NGF = world["N"], world["NGF"]
        self.maxN = max(world["ranges"])
        self.pool = Pool(self.wd.reference(self.maxN, world["grids"][0]), world["pool_seed"], len(self.wd.sitelist))
        self.ctor_args = None
        self.disk = {}           # slot -> {"file": SimFile or bytes, "groups": [(name, N, NGF, gen)]}
        self.open_files = []
        self.gen = 0
        if world.get("lookalike"):
            # elsewhere in the caller's program a calculator for a LOOKALIKE crystal (same cell, same printed form,
            # another symmetry analysis: simple cubic with and without NOSYM) was loaded earlier and is still held:
            # whatever loading remembers per process must not hand its crystal to the calculators of this run
            other = "scnosym" if world["crystal"] == "sc" else "sc"
            self.lookalike = self.load_bytes(world_data(other).image(1, 2), "calc", keep_open=False)
            self.faults["lookalike-calculator-held"] += 1
        if world["birth"] == "ctor" and world.get("own_crystal"):
            # the calculator gets a Crystal object of its own, on which the caller has already built and used a
            # different (decoy) Green-function calculator: whatever a Crystal remembers between calls must not leak
            crys = CRYSTALS[world["crystal"]][0]()
            self.decoy_on(crys, world["pool_seed"])
            chem = self.wd.chem
            jn_ = world_jumpnetwork(crys, chem, self.wd.cut, self.wd.lengths)
            if world["pool_seed"] % 2:
                # a hand-ordered but legal jump network: all forward jumps of a type first, then all reverses
                jn_ = [jl[0::2] + jl[1::2] for jl in jn_]
                self.faults["hand-ordered-jump-network"] += 1
            self.ctor_args = (crys.sitelist(chem), jn_)
            self.calc = OnsagerCalc.VacancyMediated(crys, chem, self.ctor_args[0], self.ctor_args[1],
                                                    self.N, NGFmax=self.NGF)
            self.faults["calculator-on-used-crystal-object"] += 1
            if world["pool_seed"] % 4 < 2:
                # the caller goes on using ITS lists for something else (unit conversion, pruning): the calculator
                # was handed them at construction and must not see later edits (HEAD deep-copies them)
                for jl in self.ctor_args[1]:
                    for ij, dx in jl:
                        dx *= 1.7
                    del jl[2:]
                for lst in self.ctor_args[0]:
                    lst.reverse()
                self.faults["caller-edits-its-lists-after-construction"] += 1
        elif world["birth"] == "ctor":
            self.calc = self.wd.construct(self.N, self.NGF)
        else:
            self.calc = self.load_bytes(self.wd.image(self.N, self.NGF), "calc", keep_open=False)
            self.faults["born-from-image"] += 1
        self.caller = Caller()
        self.script = None
        self.refmemo = {}
        self.arrmemo = {}
        self.siblings = {}
        self.nref = 0
        self.scribbled = False
        # C13 twin
        self.twin = None
        self.twin_caller = None
        self.rebuilt = False     # a rebuild op (regen/regrid) happened since the fork
        self.twin_gen = 0

    def fail(self, oracle, detail):
        raise Violation(self.prop, oracle, detail)

    # ------------------------------------------------------------------ disk helpers
    def load_bytes(self, data, group, keep_open):
        f = h5py.File(io.BytesIO(data), "r")
        calc = OnsagerCalc.VacancyMediated.loadhdf5(f[group])
        if keep_open:
            self.open_files.append(f)
        else:
            f.close()
        return calc

    def save_calc(self, calc, slot, mode, libver, driver, N, NGF, gen):
        """Write an image of calc to the simulated disk. Returns group name."""
        ent = self.disk.get(slot)
        lv = "latest" if libver == "latest" else "earliest"
        if driver == "core":
            # HDF5 core driver: the image never touches a file object; always a new file
            if ent is not None:
                self.faults["overwrite-older-image"] += 1
            h = h5py.File("simkit-core-{}".format(slot), "w", driver="core", backing_store=False, libver=lv)
            name = "calc0"
            calc.addhdf5(h.create_group(name))
            h.flush()
            data = h.id.get_file_image()
            h.close()
            self.disk[slot] = {"data": bytes(data), "groups": [(name, N, NGF, gen)], "core": True}
            self.probes["core-driver-image"] += 1
            return name
        # Python file-object driver on a SimFile
        if ent is None or mode != "append":
            if ent is not None:
                self.faults["overwrite-older-image"] += 1
            f = SimFile()
            groups = []
            h = h5py.File(f, "w", libver=lv)
        else:
            f = SimFile(ent["data"])
            groups = list(ent["groups"])
            h = h5py.File(f, "a")
            self.faults["append-into-shared-file"] += 1
        name = "calc{}".format(len(groups))
        calc.addhdf5(h.create_group(name))
        h.close()
        if mode == "copied":
            # legal storage event: the user moves the image into another file with HDF5's own group copy
            f2 = SimFile()
            with h5py.File(io.BytesIO(f.image()), "r") as src, h5py.File(f2, "w", libver=lv) as dst:
                src.copy(src[name], dst, name=name)
            f = f2
            self.faults["image-copied-to-other-file"] += 1
        groups.append((name, N, NGF, gen))
        self.disk[slot] = {"data": f.image(), "groups": groups, "core": None, "writes": len(f.log)}
        self.probes["image-writes"] += len(f.log)
        return name

    # ------------------------------------------------------------------ reference (C14)
    def reference(self, k, mode):
        key = (self.N, self.NGF, k % len(self.pool), mode)
        if key in self.refmemo:
            self.probes["reference-memo-hit"] += 1
            return self.refmemo[key]
        ref = self.wd.reference(self.N, self.NGF)
        val = self.eval_pristine(ref, k, mode)
        self.nref += 1
        if self.nref % 16 == 1:
            self.audit(k, mode, val)
        self.refmemo[key] = val
        return val

    def audit(self, k, mode, val):
        """Oracle audit. (a) Replayable part, a violation of C14 in its own right: a brand-new calculator that
        has answered another input first must answer input k exactly like a second brand-new calculator that
        has not. (b) The per-worker reference (which has a long history of other runs behind it) must agree
        with the brand-new one; if only (b) fails the harness has a leak and says so (exit 2, never silent)."""
        self.probes["oracle-audit"] += 1
        f1 = self.wd.construct(self.N, self.NGF)
        other = (k + 1) % len(self.pool)
        self.eval_pristine(f1, other, "default")
        v1 = self.eval_pristine(f1, k, mode)
        f2 = self.wd.construct(self.N, self.NGF)
        v2 = self.eval_pristine(f2, k, mode)
        if v1[0] != v2[0] or (v1[0] == "ok" and not self.same(v1[1], v2[1], 1e-12)):
            self.fail("pristine-history-dependent",
                      "a new calculator that evaluated input {} first answers input {} [{}] (mode {}) differently "
                      "from a new calculator that did not (cache emptied in between)".format(
                          other, k, self.pool.kind(k), mode))
        if val[0] != v2[0] or (val[0] == "ok" and not self.same(val[1], v2[1], 1e-12)):
            from simkit.core import HarnessError
            raise HarnessError("oracle audit failed: the per-worker reference calculator disagrees with a brand-new "
                               "one (world {}, input {}, mode {})".format(self.w["class"], k, mode))

    @staticmethod
    def empty_cache(calc):
        # harness-side reset: the reference must not depend on the SUT's own clearcache()
        calc.GFvalues, calc.Lvvvalues, calc.etavvalues = {}, {}, {}

    def eval_pristine(self, ref, k, mode):
        self.empty_cache(ref)
        arrs = self.pool.arrays(ref, k)
        try:
            out = ref.Lij(*arrs, **OM2[mode])
        except Exception as e:   # the same input must then fail the same way on the SUT
            return ("exc", type(e).__name__)
        finally:
            self.empty_cache(ref)
        return ("ok", [np.array(t, dtype=float, copy=True) for t in out])

    @staticmethod
    def same(a, b, rtol):
        scale = max(max(float(np.max(np.abs(np.nan_to_num(t)))) for t in b), 1e-300)
        for x, y in zip(a, b):
            x, y = np.asarray(x, dtype=float), np.asarray(y, dtype=float)
            if x.shape != y.shape:
                return False
            if not np.array_equal(np.isnan(x), np.isnan(y)):
                return False
            m = ~np.isnan(y)
            if np.any(np.abs(x[m] - y[m]) > rtol * scale):
                return False
        return True

    # ------------------------------------------------------------------ generator
    def scenario(self, rng):
        """A quarter of the runs start with a scripted skeleton of a known hazard shape (two inputs cached, a cache-
        affecting event, a partial re-evaluation in another order, an image, a restart, cache hits on the restored
        object), with seeded parameters; random ops follow. Multi-step triggers are reached in far fewer runs."""
        npool = len(self.pool)
        k1, k2 = rng.randrange(npool), rng.randrange(npool)

        def call(k):
            return {"op": "call", "k": k, "om2": rng.choice(("default", "default", "small")), "via": "fresh"}
        event = rng.choice((
            [], [{"op": "clearcache"}],
            [{"op": "regen", "N": rng.choice(self.w["ranges"])}],
            [{"op": "regrid", "n": rng.choice(self.w["grids"]), "adopt": rng.random() < 0.6}],
            [{"op": "foreign", "k": k1, "pt": rng.randrange(16), "scribble": True, "x": 2.0, "accessor": False, "setrates": False},
             {"op": "clearcache"}],
            # away to another range, change the k-mesh there, and back
            [{"op": "regen", "N": ([r for r in self.w["ranges"] if r != self.N] or [self.N])[0]},
             {"op": "regrid", "n": ([g for g in self.w["grids"] if g != self.NGF] or [self.NGF])[0], "adopt": True},
             {"op": "regen", "N": self.N}],
            # the caller converts, in place, the vectors of the states a query handed out; then re-ranges
            [{"op": "aux", "what": rng.choice(("interact", "states1", "states2")), "k": k1, "how": rng.choice(("zero", "scale"))},
             {"op": "regen", "N": ([r for r in self.w["ranges"] if r != self.N] or [self.N])[0]},
             {"op": "regen", "N": self.N}],
            # to another k-mesh, an evaluation there, and back
            [{"op": "regrid", "n": ([g for g in self.w["grids"] if g != self.NGF] or [self.NGF])[0], "adopt": True},
             call(k1), call(k2), {"op": "regrid", "n": self.NGF, "adopt": True}]))
        x_ = rng.random()
        tail_ = [] if x_ < 0.25 else [call(k2)] if x_ < 0.7 else [call(k2), call(k1)]   # possibly nothing before the image
        if self.prop == "C13":
            mid = [self.gen_fork(rng)]
            if rng.random() < 0.4:
                # the image is taken with the cache populated and the cache-affecting event comes AFTER it, before
                # the copy has evaluated anything
                return [call(k1), call(k2)] + mid + event + [call(k2), call(k1)]
        else:
            mid = [{"op": "save", "slot": "a", "mode": "new", "libver": "earliest", "driver": "fileobj"},
                   {"op": "restart", "slot": "a", "group": 0, "keep_open": False, "how": "hdf5"}]
        return [call(k1), call(k2)] + event + tail_ + mid + [call(k2), call(k1)]

    def propose(self, rng):
        if self.script is None:
            self.script = self.scenario(rng) if rng.random() < 0.25 else []
            if self.script:
                self.probes["scripted-skeleton"] += 1
        if self.script:
            return self.script.pop(0)
        return self.propose_random(rng)

    def propose_random(self, rng):
        npool = len(self.pool)
        c13 = self.prop == "C13"
        if c13 and self.twin is None and rng.random() < 0.5:
            return self.gen_fork(rng)
        # op kind by weight (swarm: the per-run weights are jittered by the world's mix seed)
        if c13:
            table = (("call", 34), ("scribble", 8), ("clearcache", 4), ("regen", 8), ("regrid", 5), ("foreign", 5),
                     ("badcall", 4), ("fork", 10), ("refork", 5), ("supercells", 4), ("component", 13), ("aux", 4), ("decoy", 3), ("sibling", 3))
        else:
            table = (("call", 40), ("scribble", 12), ("clearcache", 5), ("regen", 9), ("regrid", 5), ("foreign", 5),
                     ("badcall", 5), ("save", 10), ("restart", 9), ("aux", 5), ("decoy", 3), ("sibling", 4))
        mix = random.Random(self.w["pool_seed"] ^ 0x5eed)
        weights = [wt * mix.choice((0.3, 1.0, 1.0, 2.0)) for _, wt in table]
        kind = rng.choices([k for k, _ in table], weights=weights)[0]
        if kind == "call":
            via = "buffers" if (self.w["buffers"] and rng.random() < 0.7) else "fresh"
            return {"op": "call", "k": rng.randrange(npool), "om2": rng.choice(("default", "default", "small", "large")),
                    "via": via}
        if kind == "scribble":
            return {"op": "scribble", "ret": rng.randrange(max(1, len(self.caller.rets))), "how": rng.choice(SCRIBBLES),
                    "x": rng.choice((2.0, -1.0, 0.5, 1e3))}
        if kind == "clearcache":
            return {"op": "clearcache"}
        if kind == "regen":
            op = {"op": "regen", "N": rng.choice(self.w["ranges"])}
            if c13 and rng.random() < 0.15:
                op["tags"] = False
            return op
        if kind == "regrid":
            return {"op": "regrid", "n": rng.choice(self.w["grids"]), "adopt": rng.random() < 0.8}
        if kind == "foreign":
            return {"op": "foreign", "k": rng.randrange(npool), "pt": rng.randrange(16),
                    "scribble": rng.random() < 0.5, "x": rng.choice((2.0, -1.0, 0.0)), "accessor": rng.random() < 0.3,
                    "setrates": rng.random() < 0.5}
        if kind == "badcall":
            return {"op": "badcall", "k": rng.randrange(npool), "kind": rng.choice(BADKINDS)}
        if kind == "fork":
            return self.gen_fork(rng)
        if kind == "decoy":
            return {"op": "decoy", "seed": rng.randrange(6)}
        if kind == "sibling":
            return {"op": "sibling", "k": rng.randrange(npool)}
        if kind == "aux":
            return {"op": "aux", "what": rng.choice(AUX), "k": rng.randrange(npool), "how": rng.choice(SCRIBBLES)}
        if kind == "refork":
            return {"op": "refork", "slot": rng.choice("abc"), "libver": rng.choice(("earliest", "latest")),
                    "driver": rng.choice(("fileobj", "core")), "keep_open": rng.random() < 0.3}
        if kind == "supercells":
            if self.dim == 3:
                return {"op": "supercells", "n": rng.choice((2, 3))}
            return {"op": "component", "what": rng.choice(COMPONENTS), "arg": rng.randrange(1 << 16)}
        if kind == "component":
            return {"op": "component", "what": rng.choice(COMPONENTS), "arg": rng.randrange(1 << 16)}
        if kind == "save":
            return {"op": "save", "slot": rng.choice("abc"), "mode": rng.choice(("new", "append", "overwrite", "copied")),
                    "libver": rng.choice(("earliest", "latest")), "driver": rng.choice(("fileobj", "fileobj", "core"))}
        return {"op": "restart", "slot": rng.choice("abc"), "group": rng.randrange(4), "keep_open": rng.random() < 0.3,
                "how": rng.choice(("hdf5", "hdf5", "hdf5", "pickle", "deepcopy"))}

    def gen_fork(self, rng):
        return {"op": "fork", "slot": rng.choice("abc"), "mode": rng.choice(("new", "append", "overwrite", "copied")),
                "libver": rng.choice(("earliest", "latest")), "driver": rng.choice(("fileobj", "fileobj", "core")),
                "keep_open": rng.random() < 0.3}

    # ------------------------------------------------------------------ executor
    def apply(self, index, op):
        obs = getattr(self, "op_" + op["op"])(index, op)
        self.note_state(self.w["class"], self.N, self.NGF, self.gen, self.scribbled, self.w["buffers"],
                        tuple(sorted(self.cached_kinds(self.calc))), self.twin is not None, self.rebuilt)
        return obs

    def cached_kinds(self, calc):
        """Which pool inputs' vacancy data are currently cached (abstract-state component)."""
        n = len(getattr(calc, "GFvalues", {}))
        return (n,)

    def targets(self):
        """(calculator, caller) pairs every op is applied to."""
        t = [(self.calc, self.caller)]
        if self.twin is not None:
            t.append((self.twin, self.twin_caller))
        return t

    def input_arrays(self, calc, k):
        """The scaled inputs for input k. In 'memo_inputs' worlds the caller computes them once per calculator
        epoch and keeps them, so that later Lij calls are NOT preceded by tags2preene/preene2betafree calls on the
        calculator (otherwise the harness's own input preparation would be part of every history)."""
        src = calc
        if self.w.get("ref_arrays"):
            # the caller prepared its plain arrays elsewhere, on a freshly constructed calculator with the same
            # arguments (another program run, a table on disk): the meaning of position i in bFSV/bFT1/bFT2 (which
            # star, which jump type) must not depend on the history of the calculator that is handed the arrays
            src = self.wd.reference(self.N, self.w["grids"][0])
            self.faults["arrays-prepared-on-a-fresh-calculator"] += 1
        if not self.w.get("memo_inputs"):
            return self.pool.arrays(src, k)
        key = (0 if calc is self.calc else 1, k % len(self.pool), self.N)
        if key not in self.arrmemo:
            self.arrmemo[key] = self.pool.arrays(src, k)
        else:
            self.probes["lij-without-preceding-input-conversion"] += 1
        return [a.copy() for a in self.arrmemo[key]]

    def call_one(self, calc, caller, k, mode, via):
        arrs = self.input_arrays(calc, k)
        if via == "buffers":
            # the caller reuses ITS persistent input buffers: overwrites them in place with this input
            if caller.buffers is None or any(b.shape != a.shape for b, a in zip(caller.buffers, arrs)):
                caller.buffers = [a.copy() for a in arrs]
            else:
                for b, a in zip(caller.buffers, arrs):
                    b[...] = a
                self.faults["caller-reuses-input-buffers"] += 1
            arrs = caller.buffers
        try:
            if self.w.get("kwcalls") and (k + len(caller.rets)) % 2:
                # the same call with keyword arguments (as the documentation's examples write it)
                names = ("bFV", "bFS", "bFSV", "bFT0", "bFT1", "bFT2")
                out = calc.Lij(**dict(zip(names, arrs)), **OM2[mode])
                self.probes["lij-by-keywords"] += 1
            else:
                out = calc.Lij(*arrs, **OM2[mode])
        except Exception as e:
            return ("exc", type(e).__name__, e)
        out = list(out)
        caller.rets.extend(out)
        return ("ok", out)

    def op_call(self, index, op):
        k, mode, via = op["k"] % len(self.pool), op["om2"], op["via"]
        if mode not in OM2:
            mode = "default"
        self.probes["input-" + self.pool.kind(k)] += 1
        if mode != "default":
            self.probes["om2-forced-" + mode] += 1
        results = []
        for calc, caller in self.targets():
            ncache = len(calc.GFvalues)
            r = self.call_one(calc, caller, k, mode, via)
            results.append(r)
            if len(calc.GFvalues) == ncache and ncache > 0:
                self.probes["cache-hit"] += 1
                if self.gen > 0:
                    self.probes["cache-hit-after-reload"] += 1
        self.checks += 1
        if self.prop == "C14":
            ref = self.reference(k, mode)
            r = results[0]
            if r[0] == "exc":
                if ref[0] == "exc" and ref[1] == r[1]:
                    return "exc " + r[1]
                self.fail("lij-raised", "Lij(input {} [{}], {}) raised {}: {} but a pristine calculator {}".format(
                    k, self.pool.kind(k), mode, r[1], r[2], "returns values" if ref[0] == "ok" else "raises " + ref[1]))
            if ref[0] == "exc":
                self.fail("lij-differs-from-reference", "Lij(input {}) returned values but a pristine calculator "
                          "raises {}".format(k, ref[1]))
            tol = self.pool.extreme_tol if self.pool.extreme(k) else 1e-8
            if not self.same(r[1], ref[1], tol):
                self.fail("lij-differs-from-reference", self.diffmsg(k, mode, r[1], ref[1]))
            return "L " + tens_digest(r[1])
        # C13: original vs copy
        if self.twin is not None:
            a, b = results
            if len(self.calc.GFvalues) != len(self.twin.GFvalues):
                self.probes["twin-cache-size-differs"] += 1     # not demanded by C13: counted only
            if a[0] != b[0] or (a[0] == "exc" and a[1] != b[1]):
                self.fail("twin-exception", "Lij(input {} [{}], {}): original {} but reloaded copy {}".format(
                    k, self.pool.kind(k), mode, a[:2], b[:2]))
            if a[0] == "ok":
                tol = 1e-8 if self.rebuilt else 1e-12
                if self.pool.extreme(k):
                    tol = max(tol, self.pool.extreme_tol)
                if not self.same(b[1], a[1], tol):
                    self.fail("twin-tensor", "reloaded copy differs from original: " + self.diffmsg(k, mode, b[1], a[1]))
        r = results[0]
        return ("L " + tens_digest(r[1])) if r[0] == "ok" else "exc " + r[1]

    def diffmsg(self, k, mode, got, want):
        names = ("L0vv", "Lss", "Lsv", "L1vv")
        worst, which = 0.0, 0
        scale = max(max(float(np.max(np.abs(np.nan_to_num(t)))) for t in want), 1e-300)
        for n, (x, y) in enumerate(zip(got, want)):
            x, y = np.asarray(x, dtype=float), np.asarray(y, dtype=float)
            if x.shape != y.shape or not np.array_equal(np.isnan(x), np.isnan(y)):
                return "input {} [{}] mode {}: {} has a different shape/NaN pattern: got {} want {}".format(
                    k, self.pool.kind(k), mode, names[n], x.tolist(), y.tolist())
            d = float(np.max(np.abs(np.nan_to_num(x - y)))) / scale
            if d > worst:
                worst, which = d, n
        return "input {} [{}] mode {} (N={}, NGF={}, reload gen {}): {} differs by {:.3g} relative; got {} want {}".format(
            k, self.pool.kind(k), mode, self.N, self.NGF, self.gen, names[which], worst,
            np.asarray(got[which]).reshape(-1)[:3].tolist(), np.asarray(want[which]).reshape(-1)[:3].tolist())

    def op_scribble(self, index, op):
        done = "noop"
        for calc, caller in self.targets():
            if not caller.rets:
                continue
            arr = caller.rets[op["ret"] % len(caller.rets)]
            if not isinstance(arr, np.ndarray) or arr.size == 0:
                continue
            how, x = op["how"], float(op.get("x", 2.0))
            if how == "scale":
                arr *= x
            elif how == "zero":
                arr[...] = 0.0
            elif how == "nan":
                arr[...] = np.nan
            else:
                arr += x
            done = how
        if done != "noop":
            self.faults["scribble-on-returned-array"] += 1
            self.scribbled = True
        return done

    def op_aux(self, index, op):
        """The caller uses the calculator's other public queries between Lij calls and scribbles on what they
        hand out (jump-type lists, prefactor/energy arrays): all documented as fresh objects, so nothing may
        change for later calls."""
        what = op["what"]
        for calc, caller in self.targets():
            arrays = []
            if what in ("omegalist1", "omegalist2"):
                arrays = [calc.omegalist(1 if what.endswith("1") else 2)[1]]
            elif what == "tags2preene":
                arrays = list(calc.tags2preene(self.pool.usertagdict(op["k"])).values())
            elif what == "preene2betafree":
                arrays = list(self.pool.arrays(calc, op["k"]))
            elif what == "tracer":
                td = calc.tags2preene(self.pool.usertagdict(op["k"]))
                arrays = list(calc.maketracerpreene(**td).values())
            elif what in ("states1", "states2", "interact"):
                # the PairState objects the queries hand out: the caller converts their vectors in place (to other
                # units, say) -- arrays returned by earlier calls, modified by the caller
                if what == "interact":
                    states = list(calc.interactlist())
                else:
                    states = [ps for pair in calc.omegalist(1 if what == "states1" else 2)[0] for ps in pair]
                arrays = [ps.dx for ps in states if isinstance(getattr(ps, "dx", None), np.ndarray)]
                self.probes["scribble-on-returned-states"] += 1
            else:
                str(calc)
            for a in arrays:
                a = np.asarray(a) if not isinstance(a, np.ndarray) else a
                if a.size and a.flags.writeable:
                    if op["how"] == "zero":
                        a[...] = 0
                    elif op["how"] == "nan" and a.dtype.kind == "f":
                        a[...] = np.nan
                    else:
                        a[...] = a * 3 + 1
        self.faults["scribble-on-auxiliary-result"] += 1
        return "aux:" + what

    def op_clearcache(self, index, op):
        for calc, _ in self.targets():
            calc.clearcache()
        return "cleared"

    def op_regen(self, index, op):
        N = int(op["N"])
        if N not in self.w["ranges"]:
            return "skip"
        if N == self.N:
            self.probes["regen-same-range"] += 1
        else:
            self.faults["re-ranged-in-place"] += 1
        self.arrmemo = {}
        for calc, _ in self.targets():
            calc.generate(N)
            calc.generatematrices()
            if not op.get("tags", True) and self.prop == "C13" and N != self.N:
                # the user re-ranged in place and has not refreshed the tags yet (nothing forces it): at this moment
                # the calculator carries stale tags, and an image taken now must carry the same ones (C13: identical
                # results AND tags). Checked on the spot with a throw-away image; the tags are refreshed afterwards,
                # because the calculator's own tags2preene cannot work with stale ones.
                self.faults["image-of-calculator-with-stale-tags"] += 1
                self.checks += 1
                tmp = self.roundtrip(calc.addhdf5, OnsagerCalc.VacancyMediated.loadhdf5)
                if tmp.tags != calc.tags or tmp.tagdict != calc.tagdict or tmp.tagdicttype != calc.tagdicttype:
                    self.fail("twin-tags", "an image taken between generate() and the refresh of the tags carries "
                              "other tags than the calculator it was taken from")
            calc.tags, calc.tagdict, calc.tagdicttype = calc.generatetags()
        if N != self.N:
            self.rebuilt = True
        self.N = N
        self.compare_twin_observables("after regen")
        return "N={}".format(N)

    def op_regrid(self, index, op):
        """GFcalculator(n). The method records NGFmax = n (and clears the cache) BEFORE the caller decides whether
        to adopt the calculator it returns, and returns the calculator already held when n equals the recorded
        value. Both are legal call sequences, so the model tracks the k-mesh of the calculator actually held
        (self.NGF) separately from the recorded label (read from the object):
          adopt=True : calc.GFcalc = calc.GFcalculator(n)      adopt=False: the result is inspected and discarded"""
        n = int(op["n"])
        if n not in self.w["grids"]:
            return "skip"
        adopt = bool(op.get("adopt", True))
        labels = [getattr(calc, "NGFmax", None) for calc, _ in self.targets()]
        created = any(lab != n for lab in labels)       # a new calculator is built (and the cache cleared)
        for calc, _ in self.targets():
            new = calc.GFcalculator(n)
            if adopt:
                calc.GFcalc = new
        if created and adopt:
            if n != self.NGF:
                self.faults["re-gridded-in-place"] += 1
            # after the failing accessor call GFcalculator() reset the label to 0 (DESIGN 6, O2) an equal n rebuilds too
            self.rebuilt = True
            self.NGF = n
        elif created:
            self.faults["k-mesh-label-without-adoption"] += 1      # label n, calculator unchanged
        elif adopt and n != self.NGF:
            self.probes["regrid-returned-the-held-calculator"] += 1  # label already n: the held calculator came back
        return "NGF={} label={}".format(self.NGF, n)

    def op_foreign(self, index, op):
        """The user pokes the embedded GF calculator between Lij calls."""
        vals = []
        for calc, _ in self.targets():
            if op.get("setrates", True):
                bFV, bFS, bFSV, bFT0, bFT1, bFT2 = self.pool.arrays(calc, op["k"])
                calc.GFcalc.SetRates(np.ones_like(bFV), bFV, np.ones_like(bFT0), bFT0)
                sts = calc.GFstarset
                PS = sts.states[sts.stars[op["pt"] % len(sts.stars)][0]]
                vals.append(calc.GFcalc(PS.i, PS.j, PS.dx))
            else:
                vals.append(0.0)     # no SetRates: the GF calculator still holds whatever the last Lij miss left
            if op.get("scribble"):
                # ... and edits, in place, what the GF calculator's public queries hand out
                gf = calc.GFcalc
                if op.get("accessor"):
                    # the documented accessor "GFcalculator() returns the GF calculator" raises TypeError today
                    # when called without argument (and resets NGFmax to 0): a failing call; the run carries on
                    try:
                        gf = calc.GFcalculator() or gf
                    except Exception:
                        self.faults["failing-accessor-call"] += 1
                for query in (gf.Diffusivity, gf.biascorrection):
                    try:
                        arr = query()
                    except Exception:
                        continue      # e.g. Diffusivity() before any rates were set raises ValueError: a failing call
                    if isinstance(arr, np.ndarray) and arr.size:
                        arr *= float(op.get("x", 2.0))
                self.faults["scribble-on-GF-calculator-result"] += 1
        self.faults["foreign-SetRates"] += 1
        if self.twin is not None:
            self.checks += 1
            tol = 1e-8 if self.rebuilt else 1e-12
            if abs(vals[0] - vals[1]) > tol * max(abs(vals[0]), 1e-300):
                self.fail("twin-gf", "GF value after SetRates: original {!r}, reloaded copy {!r}".format(vals[0], vals[1]))
        return "G " + fhex(vals[0])

    def decoy_on(self, crys, seed):
        """What another part of the caller's program does with the same Crystal object: builds a Green-function
        calculator for another jump network and k-mesh, uses it, and edits in place the (freshly built) lists and
        arrays the crystal's queries handed out."""
        chem = self.wd.chem
        cut2 = self.wd.cut * (1.3 if seed % 2 else 0.999)
        sl, jn = crys.sitelist(chem), crys.jumpnetwork(chem, cut2)
        if jn:
            g = GFcalc.GFCrystalcalc(crys, chem, sl, jn, 3 if seed % 3 else 1)
            g.SetRates(np.ones(len(sl)), np.zeros(len(sl)), np.ones(len(jn)), np.array([0.5 + 0.1 * i for i in range(len(jn))]))
            g(0, 0, np.zeros(crys.dim))
        for jl in jn:
            for ij, dx in jl:
                dx *= 0.0
            del jl[1:]
        for lst in sl:
            lst.reverse()
        kpts = crys.fullkptmesh([4] * crys.dim)
        red = crys.reducekptmesh(kpts)
        kpts *= 0.0
        for a in red:
            if isinstance(a, np.ndarray):
                a *= 0.0

    SIBLING_WORLDS = ("sc", "fcc", "bcc", "diamond", "square", "tria", "honey", "triadisp", "rect2w", "rect4i",
                      "oblique", "oblique2")

    def op_sibling(self, index, op):
        """The caller owns a SECOND live calculator for the same crystal and range (coarser k-mesh, NGFmax=1) and
        evaluates the same physical input on it in between: two objects of one class must not see each other's
        cached values (e.g. through class-level or module-level dictionaries)."""
        if self.w["crystal"] not in self.SIBLING_WORLDS:
            return "skip"
        if self.N not in self.siblings:
            self.siblings[self.N] = self.wd.construct(self.N, 1)
        sib = self.siblings[self.N]
        k = op["k"] % len(self.pool)
        try:
            out = sib.Lij(*self.pool.arrays(sib, k))
            obs = "sib " + tens_digest(out)
        except Exception as e:
            obs = "sib exc " + type(e).__name__
        self.faults["sibling-calculator-evaluated"] += 1
        return obs

    def op_decoy(self, index, op):
        for calc, _ in self.targets():
            self.decoy_on(calc.crys, int(op.get("seed", 0)))
        self.faults["decoy-calculator-on-same-crystal"] += 1
        return "decoy"

    def op_badcall(self, index, op):
        """An input that makes the call raise (or return NaN); the run continues."""
        outs = []
        for calc, caller in self.targets():
            arrs = self.pool.arrays(calc, op["k"])
            kind = op["kind"]
            if kind == "nanT0":
                arrs[3][0] = np.nan
            elif kind == "infT0":
                arrs[3][0] = -np.inf
            elif kind == "shortT1":
                arrs[4] = arrs[4][:-1]
            elif kind == "longT0":
                arrs[3] = np.append(arrs[3], 0.5)
            elif kind == "nanV":
                arrs[0][0] = np.nan
            try:
                out = calc.Lij(*arrs)
                outs.append("ret")
                caller.rets.extend(list(out))
            except Exception as e:
                outs.append(type(e).__name__)
        self.faults["failing-call"] += 1
        if self.twin is not None and outs[0] != outs[1]:
            self.fail("twin-exception", "bad input {}: original {} but reloaded copy {}".format(op["kind"], outs[0], outs[1]))
        return "bad:" + outs[0]

    def op_save(self, index, op):
        if self.prop != "C14":
            return "skip"
        self.save_calc(self.calc, op["slot"], op["mode"], op["libver"], op["driver"], self.N, self.NGF, self.gen)
        self.probes["saved-with-cache" if len(self.calc.GFvalues) else "saved-empty-cache"] += 1
        return "saved"

    def op_restart(self, index, op):
        if self.prop != "C14":
            return "skip"
        if op.get("how") in ("pickle", "deepcopy"):
            # checkpoint/restore by Python's own means instead of the HDF5 image: the live calculator is pickled
            # (or deep-copied), the process 'dies', the run continues with the restored object
            import pickle
            try:
                new = pickle.loads(pickle.dumps(self.calc)) if op["how"] == "pickle" else copy.deepcopy(self.calc)
            except Exception:
                self.probes["restore-unsupported-" + op["how"]] += 1      # nothing is claimed about it
                return "unsupported"
            self.calc = new
            self.arrmemo = {}
            self.faults["restart-from-" + op["how"]] += 1
            return "restored by " + op["how"]
        ent = self.disk.get(op["slot"])
        if ent is None:
            return "noop"
        name, N, NGF, gen = ent["groups"][op["group"] % len(ent["groups"])]
        # crash/restart: the in-memory calculator is gone; only the image survives
        self.calc = self.load_bytes(ent["data"], name, op["keep_open"])
        self.arrmemo = {}
        self.N, self.NGF, self.gen = N, NGF, gen + 1
        self.faults["restart-from-image"] += 1
        if op["keep_open"]:
            self.probes["source-file-left-open"] += 1
        return "restarted N={} NGF={}".format(N, NGF)

    # ------------------------------------------------------------------ C13
    def op_fork(self, index, op):
        if self.prop != "C13":
            return "skip"
        name = self.save_calc(self.calc, op["slot"], op["mode"], op["libver"], op["driver"], self.N, self.NGF, 0)
        ent = self.disk[op["slot"]]
        self.twin = self.load_bytes(ent["data"], name, op["keep_open"])
        self.arrmemo = {}
        self.twin_caller = Caller()
        # the copy's caller starts with copies of what the original's caller holds (same shapes, own memory)
        self.twin_caller.rets = [np.array(a, copy=True) for a in self.caller.rets]
        self.twin_caller.buffers = None if self.caller.buffers is None else [b.copy() for b in self.caller.buffers]
        self.rebuilt = False
        self.twin_gen = 1
        self.faults["fork-save-reload"] += 1
        self.probes["fork-with-cache" if len(self.calc.GFvalues) else "fork-empty-cache"] += 1
        self.compare_twin_observables("after fork")
        return "forked"

    def op_refork(self, index, op):
        """Image of an image: save the reloaded copy and load it again."""
        if self.prop != "C13" or self.twin is None:
            return "skip"
        name = self.save_calc(self.twin, op["slot"], "new", op["libver"], op["driver"], self.N, self.NGF, self.twin_gen)
        self.twin = self.load_bytes(self.disk[op["slot"]]["data"], name, op["keep_open"])
        self.arrmemo = {}
        self.twin_gen += 1
        self.faults["image-of-image"] += 1
        self.compare_twin_observables("after refork")
        return "gen{}".format(self.twin_gen)

    def compare_twin_observables(self, where):
        if self.twin is None or self.prop != "C13":
            return
        a, b = self.calc, self.twin
        self.checks += 1
        # the copy's crystal must carry the symmetry analysis of the original's (integer rotations, exactly): every
        # later call that goes back to the crystal (generate, supercells, a new GF calculator) depends on it
        ga = sorted(tuple(int(x) for x in g.rot.flatten()) for g in a.crys.G)
        gb = sorted(tuple(int(x) for x in g.rot.flatten()) for g in b.crys.G)
        if ga != gb:
            self.fail("twin-crystal", "{}: the copy's crystal has {} group operations, the original's {}".format(
                where, len(gb), len(ga)))
        if self.rebuilt:
            for t in a.__taglist__:
                pa = frozenset(frozenset(c) for c in a.tags[t])
                pb = frozenset(frozenset(c) for c in b.tags[t])
                if pa != pb:
                    self.fail("twin-tags", "{}: '{}' tags differ as partitions into classes".format(where, t))
            if len(a.interactlist()) != len(b.interactlist()):
                self.fail("twin-lists", "{}: interactlist lengths differ".format(where))
            for n in (1, 2):
                if sorted(int(x) for x in a.omegalist(n)[1]) != sorted(int(x) for x in b.omegalist(n)[1]):
                    self.fail("twin-lists", "{}: omegalist({}) jump types differ".format(where, n))
            return
        if a.tags != b.tags:
            bad = [t for t in a.__taglist__ if a.tags.get(t) != b.tags.get(t)]
            self.fail("twin-tags", "{}: tags differ for {}".format(where, bad))
        if a.tagdict != b.tagdict or a.tagdicttype != b.tagdicttype:
            self.fail("twin-tags", "{}: tagdict/tagdicttype differ".format(where))
        if str(a) != str(b):
            self.fail("twin-str", "{}: printed forms differ".format(where))
        la, lb = a.interactlist(), b.interactlist()
        if len(la) != len(lb) or any(x != y for x, y in zip(la, lb)):
            self.fail("twin-lists", "{}: interactlist() differs".format(where))
        for n in (1, 2):
            (oa, ja), (ob, jb) = a.omegalist(n), b.omegalist(n)
            if len(oa) != len(ob) or any(x[0] != y[0] or x[1] != y[1] for x, y in zip(oa, ob)) or \
                    [int(x) for x in ja] != [int(x) for x in jb]:
                self.fail("twin-lists", "{}: omegalist({}) differs".format(where, n))
        for attr in ("N", "Nthermo", "NGFmax", "chem"):
            if int(getattr(a, attr)) != int(getattr(b, attr)):
                self.fail("twin-attr", "{}: attribute {} differs: {} vs {}".format(where, attr, getattr(a, attr), getattr(b, attr)))
        if len(a.GFvalues) != len(b.GFvalues) or len(a.Lvvvalues) != len(b.Lvvvalues):
            self.fail("twin-cache", "{}: cache sizes differ: {} vs {}".format(where, len(a.GFvalues), len(b.GFvalues)))

    def op_supercells(self, index, op):
        if self.prop != "C13" or self.twin is None or self.dim != 3:
            return "skip"
        n = int(op["n"])
        M = n * np.eye(3, dtype=int)
        res = []
        for calc in (self.calc, self.twin):
            res.append(calc.makesupercells(M))
        self.checks += 1
        a, b = res
        if self.rebuilt:
            if sorted(a["states"]) != sorted(b["states"]) and \
                    len(a["states"]) != len(b["states"]):
                self.fail("twin-supercells", "numbers of state supercells differ")
            return "sc(loose)"
        if sorted(a.keys()) != sorted(b.keys()):
            self.fail("twin-supercells", "makesupercells keys differ")
        for part in ("states", "transitions"):
            if sorted(a[part].keys()) != sorted(b[part].keys()):
                self.fail("twin-supercells", "{} tags differ".format(part))
        for tag in a["states"]:
            if a["states"][tag].POSCAR() != b["states"][tag].POSCAR():
                self.fail("twin-supercells", "state supercell {} differs".format(tag))
        for tag in a["transitions"]:
            for x, y in zip(a["transitions"][tag], b["transitions"][tag]):
                if x.POSCAR() != y.POSCAR():
                    self.fail("twin-supercells", "transition supercell {} differs".format(tag))
        for tag in a["transmapping"]:
            for x, y in zip(a["transmapping"][tag], b["transmapping"][tag]):
                tx = None if x is None else x[0]
                ty = None if y is None else y[0]
                if tx != ty:
                    self.fail("twin-supercells", "transition endpoint mapping of {} differs: {} vs {}".format(tag, tx, ty))
        if a["indices"] != b["indices"]:
            self.fail("twin-supercells", "indices differ")
        self.probes["supercells-compared"] += 1
        return "sc{}".format(len(a["states"]))

    # component round trips ------------------------------------------------------
    def roundtrip(self, writer, reader):
        f = SimFile()
        with h5py.File(f, "w") as h:
            writer(h.create_group("obj"))
        with h5py.File(io.BytesIO(f.image()), "r") as h:
            return reader(h["obj"])

    def op_component(self, index, op):
        if self.prop != "C13":
            return "skip"
        what, arg = op["what"], int(op["arg"])
        rnd = random.Random(arg)
        calc = self.calc
        self.checks += 1
        self.probes["component-" + what] += 1
        if what == "gfcalc":
            g = calc.GFcalc
            g2 = self.roundtrip(g.addhdf5, lambda grp: GFcalc.GFCrystalcalc.loadhdf5(calc.crys, grp))
            bFV, bFS, bFSV, bFT0, bFT1, bFT2 = self.pool.arrays(calc, arg)
            for x in (g, g2):
                x.SetRates(np.ones_like(bFV), bFV, np.ones_like(bFT0), bFT0)
            sts = calc.GFstarset
            for _ in range(4):
                PS = sts.states[sts.stars[rnd.randrange(len(sts.stars))][0]]
                va, vb = g(PS.i, PS.j, PS.dx), g2(PS.i, PS.j, PS.dx)
                if abs(va - vb) > 1e-12 * max(abs(va), 1e-300):
                    self.fail("component-gfcalc", "G({},{},{}) original {!r} reloaded {!r}".format(PS.i, PS.j, PS.dx, va, vb))
            if not np.allclose(g.Diffusivity(), g2.Diffusivity(), rtol=1e-12, atol=0):
                self.fail("component-gfcalc", "Diffusivity differs after reload")
        elif what == "gfcalc-many":
            many = _many_type_gfcalcs()
            name = sorted(many)[arg % len(many)]
            c, sl, jn0 = many[name]
            # the jump network and site list handed to the constructor are the caller's own objects; in half of the
            # cases the caller edits them after construction and before saving (the calculator was finished with them)
            jn = [[((i, j), dx.copy()) for (i, j), dx in jl] for jl in jn0]
            sl = [list(x) for x in sl]
            g = GFcalc.GFCrystalcalc(c, 0, sl, jn, 2)
            if arg % 2:
                for jl in jn:
                    for ij, dx in jl:
                        dx[...] = np.round(dx * 1.7, 2)
                    jl.reverse()
                jn.append(jn[0])
                for x in sl:
                    x.reverse()
                self.faults["caller-edits-its-jump-network-before-save"] += 1
            jn = jn0
            g2 = self.roundtrip(g.addhdf5, lambda grp: GFcalc.GFCrystalcalc.loadhdf5(c, grp))
            pre, ene = np.ones(len(sl)), np.array([0.1 * i for i in range(len(sl))])
            preT = np.array([1.0 + 0.05 * rnd.random() for _ in jn])
            eneT = np.array([0.4 + rnd.random() for _ in jn])         # every jump type its own rate
            outs = []
            for x in (g, g2):
                try:
                    x.SetRates(pre, ene, preT, eneT)
                    last = len(x.invmap) - 1
                    outs.append(("ok", x.Diffusivity(), [x(0, 0, np.zeros(c.dim))] +
                                 [x(i, j, dx) for (i, j), dx in [jl[0] for jl in jn[:6]]] +
                                 [x(0, last, dx) for (i, j), dx in [jl[0] for jl in jn[:6]] if (i, j) == (0, last)]))
                except Exception as e:
                    outs.append(("exc", type(e).__name__))
            self.probes["gfcalc-{}-jump-types".format(len(jn))] += 1
            if outs[0][0] != outs[1][0]:
                self.fail("component-gfcalc", "{}: original {} but reloaded {}".format(name, outs[0][:2], outs[1][:2]))
            if outs[0][0] == "ok":
                if not np.allclose(outs[0][1], outs[1][1], rtol=1e-12, atol=1e-300):
                    self.fail("component-gfcalc", "{} ({} jump types): Diffusivity {} after reload {}".format(
                        name, len(jn), outs[0][1].tolist(), outs[1][1].tolist()))
                for va, vb in zip(outs[0][2], outs[1][2]):
                    if abs(va - vb) > 1e-12 * max(abs(va), 1e-300):
                        self.fail("component-gfcalc", "{}: G differs after reload: {!r} vs {!r}".format(name, va, vb))
        elif what in ("thermo", "kinetic", "NNstar", "GFstarset"):
            s = getattr(calc, what)
            s2 = self.roundtrip(s.addhdf5, lambda grp: stars.StarSet.loadhdf5(calc.crys, grp))
            if s.Nstates != s2.Nstates or s.Nstars != s2.Nstars or s.Nshells != s2.Nshells:
                self.fail("component-starset", "{}: counts differ".format(what))
            if any(x != y for x, y in zip(s.states, s2.states)) or [list(x) for x in s.stars] != [list(x) for x in s2.stars]:
                self.fail("component-starset", "{}: states/stars differ".format(what))
            for _ in range(6):
                st = s.states[rnd.randrange(s.Nstates)]
                if s.stateindex(st) != s2.stateindex(st) or s.starindex(st) != s2.starindex(st):
                    self.fail("component-starset", "{}: index lookups differ".format(what))
            if s.Nshells > 0:
                for fn in ("jumpnetwork_omega1", "jumpnetwork_omega2"):
                    ja, jb = getattr(s, fn)(), getattr(s2, fn)()
                    if [list(x) for x in ja[1:]] != [list(x) for x in jb[1:]] or \
                            [[(ij, tuple(np.round(dx, 12))) for ij, dx in jl] for jl in ja[0]] != \
                            [[(ij, tuple(np.round(dx, 12))) for ij, dx in jl] for jl in jb[0]]:
                        self.fail("component-starset", "{}: {}() differs after reload".format(what, fn))
        elif what == "vkinetic":
            v = calc.vkinetic
            v2 = self.roundtrip(v.addhdf5, lambda grp: stars.VectorStarSet.loadhdf5(calc.kinetic, grp))
            if v.Nvstars != v2.Nvstars or not np.array_equal(v.outer, v2.outer):
                self.fail("component-vectorstars", "Nvstars/outer differ")
            for p1, q1, p2, q2 in zip(v.vecpos, v.vecvec, v2.vecpos, v2.vecvec):
                if list(p1) != list(p2) or any(not np.array_equal(a, b) for a, b in zip(q1, q2)):
                    self.fail("component-vectorstars", "vecpos/vecvec differ")
            ea, eb = v.GFexpansion(), v2.GFexpansion()
            if not np.array_equal(ea[0], eb[0]):
                self.fail("component-vectorstars", "GFexpansion differs")
            for fn, args in (("bareexpansions", (calc.om1_jn, calc.om1_jt)),
                             ("rateexpansions", (calc.om1_jn, calc.om1_jt)),
                             ("biasexpansions", (calc.om2_jn, calc.om2_jt, True))):
                ra, rb = getattr(v, fn)(*args), getattr(v2, fn)(*args)
                if any(not np.array_equal(x, y) for x, y in zip(ra, rb)):
                    self.fail("component-vectorstars", "{} differs after reload".format(fn))
        elif what == "taylor":
            tj = list(calc.GFcalc.Taylorjumps)
            T = PowerExpansion.Taylor3D if self.dim == 3 else PowerExpansion.Taylor2D
            # once rates have been set the GF calculator also holds derived expansions: the rate expansion, its
            # rotated form and the inverted one (powers from n = -2 upwards, l up to Lmax): all saveable objects
            g = calc.GFcalc
            for name in ("omega_Taylor", "omega_Taylor_rotate", "g_Taylor"):
                if isinstance(getattr(g, name, None), T):
                    tj.append(getattr(g, name))
                    self.probes["taylor-derived-available"] += 1
            if isinstance(getattr(g, "gT_ij", None), tuple):
                tj.append(g.gT_ij[0][0])
                tj.append(g.gT_ij[-1][0])
            t = tj[arg % len(tj)]
            if arg % 7 == 3:
                # expansions that are identically zero, in whole or in part: the blank block matrix of the public
                # T.zeros(), an exact a - a, and one with a single block zeroed -- zero is a value like any other
                nsite = t.coefflist[0][2].shape[-1] if t.coefflist else 1
                # (t - t only for expansions with one block per power n: the library's sum matches blocks on n alone,
                # so arithmetic on a SEPARATED expansion -- several pure-l blocks per n -- yields duplicate (n, l)
                # blocks, a malformed object that cannot be saved at all; the all-zero copy stands in for it there)
                onepern = len(set(n for n, l, c in t.coefflist)) == len(t.coefflist)
                t = (T.zeros(-2, 2, (nsite, nsite)),
                     (t - t) if onepern else T([(n, l, c * 0) for n, l, c in t.coefflist]),
                     T([(n, l, (c * 0 if k == 0 else c)) for k, (n, l, c) in enumerate(t.coefflist)]))[(arg // 7) % 3]
                self.probes["taylor-zero-blocks"] += 1
            if any(n < 0 for n, l, c in t.coefflist):
                self.probes["taylor-negative-power"] += 1
            t2 = self.roundtrip(t.addhdf5, T.loadhdf5)
            da = {(int(n), int(l)): c for n, l, c in t.coefflist}
            db = {(int(n), int(l)): c for n, l, c in t2.coefflist}
            # (a failed call with a NaN input leaves NaN coefficients in the derived expansions: NaN must come back as NaN)
            if sorted(da) != sorted(db) or any(not np.array_equal(da[k], db[k], equal_nan=True) for k in da):
                self.fail("component-taylor", "coefficients differ after reload")
            u = np.array([rnd.uniform(0.2, 1) * rnd.choice((-1, 1)) for _ in range(self.dim)])
            fn = {(n, l): (lambda x, n=n: x ** float(n)) for (n, l) in t.nl()}
            if not np.array_equal(t(u, fn), t2(u, fn), equal_nan=True):
                self.fail("component-taylor", "values at {} differ after reload".format(u))
            pa, pb = (t * t).reduce(), (t2 * t2).reduce()
            if any(not np.allclose(a[2], b[2], rtol=1e-13, atol=1e-15, equal_nan=True) for a, b in zip(pa.coefflist, pb.coefflist)):
                self.fail("component-taylor", "products differ after reload")
        elif what.startswith("yaml:") or what == "vtkdict":
            self.component_yaml(what, rnd)
        return "comp:" + what

    def component_yaml(self, what, rnd):
        calc = self.calc
        crys = calc.crys

        def rt(x):
            return yaml.load(yaml.dump(x), Loader=yaml.Loader)

        if what == "yaml:crystal-extra":
            # crystals with features the calculator worlds lack: spins, several chemistries, 2-D with two species
            extras = _extra_crystals()
            crys = extras[rnd.randrange(len(extras))]
            what = "yaml:crystal"
        if what == "yaml:crystal-simple":
            # the documented simplified route: simpleYAML() text -> Crystal.fromdict()
            c2 = crystal.Crystal.fromdict(yaml.load(crys.simpleYAML(), Loader=yaml.Loader))
            ok = np.allclose(crys.lattice, c2.lattice, rtol=0, atol=1e-12) and crys.chemistry == c2.chemistry and \
                len(crys.basis) == len(c2.basis) and all(
                    len(a) == len(b) and all(np.allclose(x, y, rtol=0, atol=1e-12) for x, y in zip(a, b))
                    for a, b in zip(crys.basis, c2.basis)) and crys.N == c2.N
            # the simplified form holds lattice, basis, chemistry, spins and threshold only: a crystal built with
            # NOSYM=True legitimately comes back with its full group, so the group is compared only otherwise
            if self.w["crystal"] != "scnosym" and what != "yaml:crystal-extra":
                ok = ok and len(crys.G) == len(c2.G)
            if not ok:
                self.fail("yaml-crystal", "simpleYAML()/fromdict() round trip changes the crystal")
            return
        if what == "yaml:crystal":
            c2 = rt(crys)
            if (crys.spins is None) != (c2.spins is None) or (crys.spins is not None and
                                                              [list(x) for x in crys.spins] != [list(x) for x in c2.spins]):
                self.fail("yaml-crystal", "spins differ after YAML round trip")
            ok = np.allclose(crys.lattice, c2.lattice, rtol=0, atol=1e-14) and crys.chemistry == c2.chemistry and \
                len(crys.basis) == len(c2.basis) and all(
                    len(a) == len(b) and all(np.allclose(x, y, rtol=0, atol=1e-14) for x, y in zip(a, b))
                    for a, b in zip(crys.basis, c2.basis)) and crys.dim == c2.dim and crys.N == c2.N
            if not ok:
                self.fail("yaml-crystal", "lattice/basis/chemistry differ after YAML round trip")
            if set(crys.G) != set(c2.G) or len(crys.G) != len(c2.G):
                self.fail("yaml-crystal", "space group differs as a set after YAML round trip")
            if set(crys.Wyckoff) != set(c2.Wyckoff):
                self.fail("yaml-crystal", "Wyckoff sets differ after YAML round trip")
            # (the YAML *text* is not required to be a fixed point: the group is dumped as a frozenset, whose
            # order is arbitrary; demanding equal text was a false alarm of an earlier version of this check)
            c3 = rt(c2)
            if set(c3.G) != set(c2.G) or not np.allclose(c3.lattice, c2.lattice, rtol=0, atol=1e-14):
                self.fail("yaml-crystal", "a second YAML round trip changes the crystal")
        elif what == "yaml:groupop":
            gl = sorted(crys.G, key=lambda g: (tuple(g.rot.flatten()), tuple(np.round(g.trans, 9))))
            g = gl[rnd.randrange(len(gl))]
            g2 = rt(g)
            if g2 != g or hash(g2) != hash(g) or g2.indexmap != g.indexmap or not np.array_equal(g2.cartrot, g.cartrot):
                self.fail("yaml-groupop", "GroupOp differs after YAML round trip")
        elif what == "yaml:pairstate":
            st = calc.kinetic.states[rnd.randrange(calc.kinetic.Nstates)]
            s2 = rt(st)
            if s2 != st or hash(s2) != hash(st) or not np.allclose(s2.dx, st.dx, rtol=0, atol=1e-12) or not np.array_equal(s2.R, st.R):
                self.fail("yaml-pairstate", "PairState {} differs after YAML round trip: {}".format(st, s2))
        elif what in ("yaml:clustersite", "yaml:cluster"):
            if not hasattr(self, "_clusters"):
                ce = cluster.makeclusters(crys, min(1.01 * self.wd.cut, 1.5), 3)
                jn = self.wd.jumpnetwork
                vce = cluster.makeVacancyClusters(crys, self.wd.chem, ce)
                ts = cluster.makeTSclusters(crys, self.wd.chem, jn, ce)
                tsv = cluster.makeTSclusters(crys, self.wd.chem, jn, vce)     # vacancy AND transition-state clusters
                self._clusters = sorted((cl for grp in (ce, vce, ts, tsv) for s in grp for cl in s), key=str)
            cl = self._clusters[rnd.randrange(len(self._clusters))]
            if what == "yaml:clustersite":
                cs = cl.sites[rnd.randrange(len(cl.sites))]
                c2 = rt(cs)
                if c2 != cs or hash(c2) != hash(cs):
                    self.fail("yaml-clustersite", "ClusterSite {} differs after YAML round trip".format(cs))
            else:
                c2 = rt(cl)
                if c2 != cl or hash(c2) != hash(cl) or str(c2) != str(cl):
                    self.fail("yaml-cluster", "Cluster {} differs after YAML round trip: {}".format(cl, c2))
        elif what == "yaml:vtk":
            bF = self.pool.arrays(calc, rnd.randrange(len(self.pool)))
            k = OnsagerCalc.vacancyThermoKinetics(pre=np.ones_like(bF[0]), betaene=bF[0],
                                                  preT=np.ones_like(bF[3]), betaeneT=bF[3])
            k2 = rt(k)
            if not (k2 == k) or hash(k2) != hash(k):
                self.fail("yaml-vtk", "vacancyThermoKinetics key differs after YAML round trip")
        elif what == "vtkdict":
            d = calc.GFvalues
            if d:
                d2 = OnsagerCalc.arrays2vTKdict(*OnsagerCalc.vTKdict2arrays(d))
                if len(d2) != len(d):
                    self.fail("component-vtkdict", "cache dictionary changed size in array conversion")
                for k, v in d.items():
                    if k not in d2 or not np.array_equal(d2[k], v):
                        self.fail("component-vtkdict", "cache entry lost or changed in array conversion")

    # ------------------------------------------------------------------ quiescent sweep
    def finish(self):
        # faults stop; every pool input is answered once more and checked
        for k in range(len(self.pool)):
            self.op_call(10 ** 6 + k, {"op": "call", "k": k, "om2": "default", "via": "fresh"})
        if self.prop == "C13":
            self.compare_twin_observables("quiescent sweep")
        return "swept{}".format(len(self.pool))

    def close(self):
        for f in self.open_files:
            try:
                f.close()
            except Exception:
                pass


class Engine(object):
    def __init__(self, prop, tier):
        assert prop in ("C13", "C14")
        self.prop, self.tier = prop, tier

    def draw_world(self, rng):
        names = ALL_WORLDS if self.tier == "thorough" else QUICK_WORLDS
        c = rng.choice(names)
        ranges = rng.choice(([1], [1], [2], [1, 2], [1, 2]))
        if c in ("hcp", "b2disp", "tet2w", "mono") and self.tier != "thorough" and ranges != [1] and rng.random() < 0.6:
            ranges = [1]
        if c == "scnosym":
            ranges = [1]          # 189 vector stars at range 2 (9 s per build, several builds per run): not drawn
        grids = rng.choice(([2], [2, 3], [2, 3])) if self.tier != "thorough" else rng.choice(([2], [2, 3], [3, 4], [2, 4]))
        if self.tier == "thorough" and c in ("square", "tria", "honey", "rect2w", "rect4i", "triadisp") and rng.random() < 0.3:
            ranges = rng.choice(([1, 3], [2, 3], [1, 2, 3]))     # deeper thermodynamic ranges where they are cheap
        w = {"crystal": c, "ranges": ranges, "N": rng.choice(ranges), "grids": grids, "NGF": rng.choice(grids),
             "birth": rng.choice(("ctor", "image", "image")), "pool_seed": rng.randrange(1 << 30),
             "buffers": rng.random() < 0.5}
        w["memo_inputs"] = rng.random() < 0.5
        w["own_crystal"] = rng.random() < 0.5
        w["kwcalls"] = rng.random() < 0.5
        w["lookalike"] = c in ("sc", "scnosym") and rng.random() < 0.5
        w["ref_arrays"] = rng.random() < 0.35
        w["class"] = "{}/N{}/G{}".format(c, "".join(map(str, ranges)), "".join(map(str, grids)))
        return w

    def draw_length(self, rng):
        return rng.choice((6, 12, 20, 30, 40))

    def new_run(self, world):
        return Run(self.prop, world)

    @staticmethod
    def shrink_op(op):
        if op["op"] == "call":
            if op.get("via") != "fresh":
                yield dict(op, via="fresh")
            if op.get("om2") != "default":
                yield dict(op, om2="default")
        elif op["op"] in ("save", "fork"):
            if op.get("driver") != "fileobj" or op.get("libver") != "earliest" or op.get("mode") != "new":
                yield dict(op, driver="fileobj", libver="earliest", mode="new")
        elif op["op"] == "restart" and op.get("keep_open"):
            yield dict(op, keep_open=False)
