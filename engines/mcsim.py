"""mcsim -- C33, C34, C35: Monte Carlo samplers under arbitrary histories.

C33: MonteCarloSampler driven through starts / updates / trials / rejected calls; after every op it
     must equal a sampler freshly started on the current occupation.
C34: inside such histories, reported transitions are performed and the reverse transition looked up in
     the final configuration (detailed balance); with a vacancy the walk moves the vacancy around.
C35: MonteCarloSampler_jit in lockstep with the reference sampler over the same history; the Metropolis
     random stream is injected through MCmoves' own arguments.
See DESIGN.md sections 4.4-4.6.
"""
import copy
import os
import random

import numpy as np

from onsager import cluster, crystal, supercell
from simkit.core import RunBase, Violation, fhex

SUPERS = {
    "111": [[1, 0, 0], [0, 1, 0], [0, 0, 1]],
    "211": [[2, 0, 0], [0, 1, 0], [0, 0, 1]],
    "221": [[2, 0, 0], [0, 2, 0], [0, 0, 1]],
    "222": [[2, 0, 0], [0, 2, 0], [0, 0, 2]],
    "322": [[3, 0, 0], [0, 2, 0], [0, 0, 2]],
    "332": [[3, 0, 0], [0, 3, 0], [0, 0, 2]],
    "333": [[3, 0, 0], [0, 3, 0], [0, 0, 3]],
    "rot2": [[1, 1, 0], [-1, 1, 0], [0, 0, 1]],
    "shear4": [[2, 1, 0], [0, 2, 0], [0, 0, 1]],
    "conv4": [[-1, 1, 1], [1, -1, 1], [1, 1, -1]],
    "conv32": [[-2, 2, 2], [2, -2, 2], [2, 2, -2]],
    "odd6": [[1, 0, 1], [0, 2, 0], [-1, 0, 2]],
    "skew12": [[2, 1, 0], [0, 2, 1], [1, 0, 3]],
    # elongated cells: with a vacancy and nearest-neighbour jumps some sites are out of reach of every vacancy jump
    "225": [[2, 0, 0], [0, 2, 0], [0, 0, 5]],
    "235": [[2, 0, 0], [0, 3, 0], [0, 0, 5]],
}
# name: (cluster cutoffs, jump cutoff, spectator chemistries)
CRYSTALS = {
    "fcc": ((0.8, 1.01, 1.45), 0.8, ()),          # 1.45: pairs out to the 4th shell = two lattice vectors along a jump
    "bcc": ((0.9, 1.01), 0.9, ()),
    "sc": ((1.01, 1.45, 2.01), 1.01, ()),         # 2.01: pairs out to two lattice vectors
    "hcp": ((1.01,), 1.01, ()),
    "b2": ((0.9, 1.01), 1.01, (1,)),
    # TWO mobile chemistries (both sublattices of B2 carry occupation variables; species 0 jumps): clusters mix
    # the sublattices, so barriers depend on the occupation of the sublattice that does not jump
    "b2m": ((0.9, 1.01), 1.01, ()),
    # as b2m, but the cluster expansion EXCLUDES chemistry 1 (makeclusters(..., exclude=[1])): its sites are mobile
    # and take part in no interaction at all (empty rows in the site-interaction table)
    "b2x": ((0.9, 1.01), 1.01, ()),
    # the jumping species is chemistry index 1; chemistry 0 is the spectator
    "b2c1": ((0.9, 1.01), 1.01, (0,)),
    # one mobile chemistry on two INEQUIVALENT sites joined by the jump network (octahedral + 2 tetrahedral
    # interstitial sites of fcc): jumps whose end points have different on-site energies
    "octtet": ((0.45, 0.55), 0.55, ()),     # two jump types: oct-tet and tet-tet
}
NSITES = {"hcp": 2, "octtet": 3, "b2m": 2, "b2x": 2}
if os.environ.get("MCSIM_CRYSTALS"):      # A/B experiments only
    CRYSTALS = {k: v for k, v in CRYSTALS.items() if k in os.environ["MCSIM_CRYSTALS"].split(",")}
CHEM = 0
CHEMOF = {"b2c1": 1}        # crystal -> chemistry index of the jumping species (default 0)


def chem_of(name):
    return CHEMOF.get(name, CHEM)
_CRYS, _CE = {}, {}


def get_crystal(name):
    if name not in _CRYS:
        if name == "fcc":
            c = crystal.Crystal.FCC(1., "A")
        elif name == "bcc":
            c = crystal.Crystal.BCC(1., "A")
        elif name == "sc":
            c = crystal.Crystal(np.eye(3), [np.zeros(3)], ["A"])
        elif name == "hcp":
            c = crystal.Crystal.HCP(1., chemistry="A")
        elif name in ("b2", "b2m", "b2c1", "b2x"):
            c = crystal.Crystal(np.eye(3), [[np.zeros(3)], [0.5 * np.ones(3)]], ["A", "B"])
        elif name == "octtet":
            fcc = crystal.Crystal.FCC(1., "A")
            c = crystal.Crystal(fcc.lattice, [[np.array([.5, .5, .5]), np.array([.25, .25, .25]),
                                               np.array([.75, .75, .75])]], ["I"])
        else:
            raise KeyError(name)
        _CRYS[name] = c
    return _CRYS[name]


def get_expansions(name, cutoff, order):
    """Cluster expansions are pure functions of (crystal, cutoff, order): cached per worker."""
    key = (name, cutoff, order)
    if key not in _CE:
        crys = get_crystal(name)
        ce = cluster.makeclusters(crys, cutoff, order, exclude=[1]) if name == "b2x" else \
            cluster.makeclusters(crys, cutoff, order)
        chem = chem_of(name)
        jn = crys.jumpnetwork(chem, CRYSTALS[name][1])
        vce = cluster.makeVacancyClusters(crys, chem, ce)
        ts = cluster.makeTSclusters(crys, chem, jn, ce)
        tsv = cluster.makeTSclusters(crys, chem, jn, vce)
        _CE[key] = (ce, jn, vce, ts, tsv)
    return _CE[key]


def draw_values(rnd, n, style, energies=False):
    if style == "hardcore":
        # a hard-core exclusion written the usual way: one or two cluster energies are +inf (configurations that
        # switch them on have infinite energy; Metropolis never accepts them). Only for cluster energies, and only
        # in worlds without a jump network (there +inf is the compiled sampler's mark for a forbidden transition).
        v = np.array([rnd.randrange(-32, 33) / 16.0 for _ in range(n)])
        if energies and n >= 3:
            for k in rnd.sample(range(n - 1), rnd.choice((1, 2))):
                v[k] = np.inf
        return v
    if style == "dyadic":
        return np.array([rnd.randrange(-32, 33) / 16.0 for _ in range(n)])
    if style == "coarse":
        # few distinct values, many zeros: exact cancellations between different environments are common
        return np.array([rnd.choice((-1.0, -0.5, 0.0, 0.0, 0.5, 1.0)) for _ in range(n)])
    if style == "wide":
        # powers of two from 2^-16 to 2^16 with either sign: sums stay exact (well inside 53 bits), but anything
        # with an absolute tolerance ("treat |dE| < 1e-8 as zero", isclose) sees values on both sides of it
        return np.array([rnd.choice((-1.0, 1.0)) * 2.0 ** rnd.randrange(-16, 17) for _ in range(n)])
    if style in ("tiny", "huge"):
        # the whole model in other units (joule instead of eV, or the reverse): dyadic values times 2^-40 or 2^40;
        # scaling by a power of two keeps every sum exact, but "is this value zero?" tests with an absolute
        # tolerance, and tolerances sized for O(1) energies, see a different world
        f = 2.0 ** (-40 if style == "tiny" else 40)
        return np.array([rnd.randrange(-32, 33) / 16.0 * f for _ in range(n)])
    if style == "integer":
        # an integer array (what a user typing whole numbers gets): arithmetic is exact, halves must not truncate
        return np.array([rnd.randrange(-5, 6) for _ in range(n)], dtype=int)
    return np.array([rnd.gauss(0.0, 1.0) for _ in range(n)])


class World(object):
    """Everything fixed for a run: crystal, supercell, expansions, values; builds samplers."""

    def __init__(self, w):
        self.w = w
        self.crys = get_crystal(w["crystal"])
        self.S = np.array(SUPERS[w["super"]])
        self.spect = CRYSTALS[w["crystal"]][2]
        ce, jn, vce, ts, tsv = get_expansions(w["crystal"], w["cutoff"], w["order"])
        self.jn = jn
        if w.get("jnperm"):
            # a jump network assembled by the user: the same jumps, each list in another order (all forward jumps
            # first, then all reverses; or shuffled) -- nothing says a jump must be followed by its reverse
            prnd = random.Random(w["vseed"] + 29)
            self.jn = [(jl[0::2] + jl[1::2]) if w["jnperm"] == "split" else prnd.sample(jl, len(jl)) for jl in jn]
        rnd = random.Random(w["vseed"])
        self.vac = bool(w["vac"])
        self.ce = ce + vce if self.vac else ce
        if w.get("merge"):
            # the API asks only that the clusters of one group share a coefficient: a user may put several symmetry
            # orbits under one value (a constrained fit). Groups are merged pairwise, as plain lists, second first.
            mrnd = random.Random(w["vseed"] + 17)
            groups, merged = list(ce), []
            while groups:
                a = groups.pop(0)
                if groups and mrnd.random() < 0.6:
                    b = groups.pop(mrnd.randrange(len(groups)))
                    merged.append(list(b) + list(a))
                else:
                    merged.append(a)
            self.ce = merged + (vce if self.vac else [])
        self.evalues = draw_values(rnd, len(self.ce) + 1, w["values"], energies=True)
        if w.get("noconst"):
            self.evalues = self.evalues[:-1]       # the trailing constant term is optional (len(values) == len(clusters))
        self.ts = (tsv if self.vac else ts) if w["ts"] else []
        self.tsvalues = draw_values(rnd, len(self.ts), w["values"])
        if w["kra"] == "list":
            self.kra = draw_values(rnd, len(jn), w["values"])
        elif w["kra"] == "blocked":
            # one jump type switched off the usual way: its KRA value is +inf (listed first), the others ordinary
            self.kra = draw_values(rnd, len(jn), w["values"]).astype(float)
            self.kra[0] = np.inf
        elif w["kra"] == "zero":
            self.kra = 0                    # the documented default
        else:
            self.kra = draw_values(rnd, 1, w["values"])[0]
            self.kra = int(self.kra) if w["values"] == "integer" else float(self.kra)
        sup = supercell.ClusterSupercell(self.crys, self.S, spectator=self.spect)
        # "shared supercell" worlds: every sampler of the run (system under test, fresh references, the per-site
        # samplers of the vacancy walk, a decoy with other values) is built on ONE ClusterSupercell object, moving
        # its vacancy with addvacancy() -- the way a kinetic Monte Carlo driver would use the class
        self.shared = supercell.ClusterSupercell(self.crys, self.S, spectator=self.spect) if w.get("shared_sup") else None
        self.celist = []
        self.nsites = sup.Nmobile * sup.size
        srnd = random.Random(w["sseed"])
        self.socc = np.array([srnd.choice((0, 1, 1)) for _ in range(sup.Nspec * sup.size)], dtype=int)
        # the vacancy sits on a site of the jumping species
        self.chem = chem_of(w["crystal"])
        jumping = [i for i in range(self.nsites) if sup.mobileindices[i % sup.Nmobile][0] == self.chem]
        self.jumping = jumping
        self.vacsite = jumping[w["vacsite"] % len(jumping)] if self.vac else None
        self.scale = float(np.sum(np.abs(self.evalues[np.isfinite(self.evalues)])) * max(1, self.nsites) +
                           np.sum(np.abs(self.tsvalues)) + np.sum(np.abs(np.asarray(self.kra, dtype=float)[np.isfinite(np.asarray(self.kra, dtype=float))])) + 1.0)
        self.unit = {"tiny": 2.0 ** -40, "huge": 2.0 ** 40}.get(w["values"], 1.0)
        self.exact = w["values"] in ("dyadic", "coarse", "integer", "wide", "tiny", "huge", "hardcore")

    def sampler(self, vacsite=None, decoy=False, private=False, own=None):
        """A brand-new sampler through the public constructors. decoy=True: a different sampler (other
        interaction values, other spectator occupation, vacancy elsewhere) that a caller builds on the same
        supercell object in between; it must leave no trace in samplers built afterwards."""
        sup = self.shared if (self.shared is not None and not private) else \
            supercell.ClusterSupercell(self.crys, self.S, spectator=self.spect)
        socc, ev, tsv, kra = self.socc, self.evalues, self.tsvalues, self.kra
        if own is not None:
            # the system under test gets argument objects of its own (not shared with the reference samplers).
            # (Editing them after construction was tried as a fault and withdrawn: DESIGN 9.)
            socc, ev, tsv = socc.copy(), ev.copy(), tsv.copy()
            kra = kra.copy() if isinstance(kra, np.ndarray) else kra
            jn = [[((i, j), dx.copy()) for (i, j), dx in jl] for jl in self.jn]
            ce, ts = [set(c) if isinstance(c, (set, frozenset)) else list(c) for c in self.ce], \
                [set(c) if isinstance(c, (set, frozenset)) else list(c) for c in self.ts]
            if self.w.get("shared_sup") == "expansion" and not private:
                # the caller's ONE expansion list object, which held another expansion when the decoy was built
                self.celist[:] = ce
                ce = self.celist
            own.update(socc=socc, ev=ev, tsv=tsv, kra=kra, jn=jn, ce=ce, ts=ts)
            if self.vac:
                sup.addvacancy(self.vacsite if vacsite is None else vacsite)
            if self.w["jumps"]:
                return cluster.MonteCarloSampler(sup, socc, ce, ev, self.chem, jn, KRAvalues=kra, TSclusters=ts, TSvalues=tsv)
            return cluster.MonteCarloSampler(sup, socc, ce, ev)
        if self.vac:
            v = self.vacsite if vacsite is None else vacsite
            if decoy and self.w.get("shared_sup") not in ("jumpnet", "expansion"):
                v = self.jumping[(self.jumping.index(v) + 1) % len(self.jumping)]
            sup.addvacancy(v)
        if decoy and self.w.get("shared_sup") == "expansion":
            # the caller keeps ONE list object for "the expansion" and edits it in place between fits: the decoy is
            # built while it holds other groups (same length, rotated by one), the sampler under test after it was
            # put right again -- every constructor call must take its arguments as they are at the call
            rot = list(self.ce[1:]) + list(self.ce[:1])
            self.celist[:] = rot
            if self.w["jumps"]:
                return cluster.MonteCarloSampler(sup, socc, self.celist, ev, self.chem, self.jn, KRAvalues=kra,
                                                 TSclusters=self.ts, TSvalues=tsv)
            return cluster.MonteCarloSampler(sup, socc, self.celist, ev)
        if decoy and self.w.get("shared_sup") == "jumpnet":
            # same energy model (spectators, clusters, values, vacancy), but a jump network that is laid out
            # differently: jump types and jumps in reverse order, the other jumping species where there are two
            chem, jn = self.chem, [jl[::-1] for jl in self.jn[::-1]]
            if self.w["crystal"] == "b2m":
                chem = 1 - self.chem
                jn = self.crys.jumpnetwork(chem, CRYSTALS["b2m"][1])
            if self.vac and sup.mobileindices[sup.vacancy % sup.Nmobile][0] != chem:
                chem, jn = self.chem, [jl[::-1] for jl in self.jn[::-1]]
            return cluster.MonteCarloSampler(sup, socc, self.ce, ev, chem, jn, KRAvalues=0.25)
        if decoy:
            socc, ev, tsv = 1 - self.socc, self.evalues[::-1] + 1.0, self.tsvalues[::-1] - 0.5
            kra = (self.kra[::-1] + 0.25) if isinstance(self.kra, np.ndarray) else self.kra + 0.25
        if self.w["jumps"]:
            return cluster.MonteCarloSampler(sup, socc, self.ce, ev, self.chem, self.jn,
                                             KRAvalues=kra, TSclusters=self.ts, TSvalues=tsv)
        return cluster.MonteCarloSampler(sup, socc, self.ce, ev)

    def close(self, a, b):
        if a != a or b != b:
            # NaN arises legitimately only as (+inf) - (+inf) in a trial that switches one infinite interaction
            # off and another on; two computations of the same quantity must then both give NaN
            return a != a and b != b
        if a == b:
            return True               # also +inf against +inf (a blocked jump type, a hard-core energy)
        if self.exact:
            return a == b
        return abs(a - b) <= 1e-9 * self.scale


_ADMIT = {}


def c34_admissible(name, skey, cutoff, order, vac=True):
    """Minimum-image predicate of DESIGN 4.5, by brute force: no jump lands on its own image and (in worlds
    with a vacancy) no (TS/vacancy) cluster placed in the supercell touches one supercell index twice."""
    key = (name, skey, cutoff, order, bool(vac))
    if key in _ADMIT:
        return _ADMIT[key]
    import os
    mode = os.environ.get("MCSIM_C34_PRED", "full")
    if mode == "none":
        return True
    crys = get_crystal(name)
    ce, jn, vce, ts, tsv = get_expansions(name, cutoff, order)
    sup = supercell.ClusterSupercell(crys, np.array(SUPERS[skey]), spectator=CRYSTALS[name][2])
    ok = True
    zero = np.zeros(3, dtype=int)
    for jlist in jn:
        for (i0, j0), dx in jlist:
            dR, cj = crys.cart2pos(crys.pos2cart(zero, (chem_of(name), i0)) + dx)
            if sup.index(zero, (chem_of(name), i0))[0] == sup.index(dR, cj)[0]:
                ok = False
    if ok and mode == "full" and (vac or os.environ.get("MCSIM_C34_PRED_NOVAC", "jump") == "full"):
        for group in (ce, vce, ts, tsv):
            for clset in group:
                for cl in clset:
                    idx = [sup.index(s.R, s.ci)[0] for s in cl.sites if s.ci in sup.indexmobile]
                    # TS clusters "with endpoint" list the endpoint twice by construction; count distinct sites
                    uniq = set((s.ci, tuple(s.R)) for s in cl.sites if s.ci in sup.indexmobile)
                    if len(set(idx)) < len(uniq):
                        ok = False
    _ADMIT[key] = ok
    return ok


def occ_to_str(occ):
    return "".join("v" if c < 0 else str(int(c)) for c in occ)


class Run(RunBase):
    def __init__(self, prop, world):
        RunBase.__init__(self)
        self.prop = prop
        self.w = world
        self.W = World(world)
        self.n = self.W.nsites
        self.released = []                    # occupation arrays of earlier start() calls: the sampler has let go of them
        self.given_to_jit = []                # arrays handed to the compiled sampler's start(), which copies
        self.own = {}                         # the argument objects the caller handed to the constructor of self.mc
        self.companion = None                 # shared-supercell worlds: the decoy sampler, kept alive and driven too
        if self.W.shared is not None:
            # the system under test is constructed on a supercell object on which a different sampler was
            # constructed before; the fresh references come from a supercell object of their own
            self.companion = self.W.sampler(decoy=True)
            self.mc = self.W.sampler(own=self.own)
            self.tmpl = self.W.sampler(private=True)
            self.faults["sampler-built-on-shared-supercell"] += 1
            if not self.W.vac and world.get("vseed", 0) % 2:
                # ... or the driver goes on to build a vacancy sampler on the same supercell object: the marker is
                # set AFTER the vacancy-free sampler under test was built
                self.W.shared.addvacancy(self.W.jumping[world["vseed"] % len(self.W.jumping)])
                self.faults["supercell-vacancy-moved-after-construction"] += 1
            if self.W.vac and world.get("vseed", 0) % 2:
                # ... and the driver has moved on: the supercell object's own vacancy marker is changed (or removed)
                # after the sampler was built; the sampler keeps the vacancy it was built with
                k = world["vseed"] % 3
                self.W.shared.addvacancy(None if k == 0 else self.W.jumping[(self.W.jumping.index(self.W.vacsite) + k) %
                                                                          len(self.W.jumping)])
                self.faults["supercell-vacancy-moved-after-construction"] += 1
        else:
            self.tmpl = self.W.sampler()          # never started; shallow copies serve as fresh references
            self.mc = self.W.sampler(own=self.own)    # system under test: its own constructor call
        self.vacsite = self.W.vacsite
        self.occ = None                       # the caller's array (aliased by the sampler)
        self.mocc = None                      # model occupation (list)
        self.started = False
        self.needs_start = False
        self.samplers = {}                    # C34 vacancy walk: vacancy site -> never-started sampler
        self.quiet = False                    # current op is unobserved (no oracle call touches the SUT)
        self.recent_trials = []               # site lists of trial moves announced earlier in this history
        # C35
        self.jit = None
        self.jit_other = None                 # frozen copy + snapshot
        self.jit_other_snap = None

    def fail(self, oracle, detail):
        raise Violation(self.prop, oracle, detail)

    def jit_start(self, a):
        """start() of the compiled sampler, which documents that it keeps its OWN copy of the occupation: the
        caller keeps the array it handed over and may recycle it (op recycle)."""
        ja = np.array(a, dtype=np.int64)
        self.jit.start(ja)
        self.given_to_jit = (self.given_to_jit + [ja])[-3:]

    def caller_array(self, a, kind):
        """The caller's occupation vector in one of the forms a numpy user would hand over: its own int64/int32/
        int8 array, or a strided view into a larger array it owns (every other element)."""
        if kind == "int32":
            arr = np.array(a, dtype=np.int32)
        elif kind == "int8":
            arr = np.array(a, dtype=np.int8)
        elif kind == "uint8" and all(x >= 0 for x in a):
            arr = np.array(a, dtype=np.uint8)          # legal without a vacancy: the values are only 0 and 1
        elif kind == "strided":
            big = np.full(2 * len(a), 7, dtype=int)
            big[::2] = a
            arr = big[::2]
        else:
            return np.array(a, dtype=int)
        self.probes["occupation-array-" + kind] += 1
        return arr

    # ------------------------------------------------------------------ helpers
    def make_occ(self, spec):
        if spec == "zeros":
            a = [0] * self.n
        elif spec == "ones":
            a = [1] * self.n
        elif spec == "current" and self.mocc is not None:
            a = list(self.mocc)
        else:
            s = spec if spec not in ("current",) else ""
            a = [1 if ch == "1" else 0 for ch in s][:self.n]
            a += [0] * (self.n - len(a))
        if self.vacsite is not None:
            a[self.vacsite] = -1
        return a

    def fresh(self, vacsite=None):
        """A freshly started sampler on (a copy of) the current occupation."""
        if self.vacsite is not None and self.vacsite != self.W.vacsite:
            f = copy.copy(self.samplers[self.vacsite])
        else:
            f = copy.copy(self.tmpl)
        f.start(np.array(self.mocc, dtype=int))
        return f

    def probe_moves(self, index, k=3):
        rnd = random.Random(self.w["vseed"] * 7919 + index * 31 + 5)
        occd = [i for i, c in enumerate(self.mocc) if c == 1]
        unoc = [i for i, c in enumerate(self.mocc) if c == 0]
        moves = []
        for _ in range(k):
            a = rnd.sample(unoc, min(len(unoc), rnd.randrange(0, 3)))
            b = rnd.sample(occd, min(len(occd), rnd.randrange(0, 3)))
            moves.append((a, b))
        return moves

    def check_fresh(self, index, where):
        """C33 oracle: the live sampler equals one freshly started on the current occupation."""
        if not self.started or self.needs_start or self.prop != "C33":
            return
        mc = self.mc
        self.checks += 1
        if [int(x) for x in self.occ] != self.mocc:
            self.fail("occ-model", "{}: occupation {} != model {}".format(where, occ_to_str(self.occ),
                                                                      occ_to_str(self.mocc)))
        f = self.fresh()
        E, Ef = mc.E(), f.E()
        if not self.W.close(E, Ef):
            self.fail("E-fresh", "{}: E()={!r} but a sampler freshly started on {} gives {!r}".format(
                where, E, occ_to_str(self.mocc), Ef))
        if set(mc.occupied_set) != set(f.occupied_set) or set(mc.unoccupied_set) != set(f.unoccupied_set):
            self.fail("sets-fresh", "{}: occupied/unoccupied sets {} / {} differ from fresh {} / {}".format(
                where, sorted(mc.occupied_set), sorted(mc.unoccupied_set), sorted(f.occupied_set),
                sorted(f.unoccupied_set)))
        if set(mc.occupied_set) != set(i for i, c in enumerate(self.mocc) if c == 1) or \
                set(mc.unoccupied_set) != set(i for i, c in enumerate(self.mocc) if c == 0):
            self.fail("sets-fresh", "{}: site sets are not the partition of the occupation".format(where))
        for a, b in self.probe_moves(index):
            d, df = mc.deltaE_trial(a, b), f.deltaE_trial(a, b)
            if not self.W.close(d, df):
                self.fail("trial-fresh", "{}: deltaE_trial({},{})={!r}, fresh sampler gives {!r}".format(
                    where, a, b, d, df))
        if self.w["jumps"]:
            t, tf = mc.transitions(), f.transitions()
            if t[0] != tf[0] or len(t[1]) != len(tf[1]) or \
                    any(not self.W.close(x, y) for x, y in zip(t[1], tf[1])) or \
                    not np.allclose(np.array(t[2]).reshape(-1), np.array(tf[2]).reshape(-1)):
                self.fail("transitions-fresh", "{}: transitions() differ from a freshly started sampler".format(where))
        self.note_state(self.w["class"], occ_to_str(self.mocc), self.vacsite)

    def unchanged_after_reject(self, index, what):
        self.faults["reject-" + what] += 1
        if self.prop == "C33" and not self.quiet:
            try:
                self.check_fresh(index, "after rejected " + what)
            except Violation as v:
                raise Violation(self.prop, "reject-changed-state", v.detail)

    # ------------------------------------------------------------------ generator
    def propose(self, rng):
        if getattr(self.mc.siteinteract, "ndim", 2) != 2 or self.mc.siteinteract.shape[1] == 0:
            # a sampler without a single interaction (the only interacting site is the vacancy): like the atom-free
            # cell there is nothing to sample -- the site table has no columns, start() sees no site and the compiled
            # class cannot be typed. Outside any sensible domain: the run ends here, nothing is compared.
            self.probes["no-interaction-at-all"] += 1
            return None
        op = self.propose_inner(rng)
        if op is not None and op.get("op") in ("update", "trial") and self.prop != "C35":
            op["as"] = rng.choice(("list", "list", "tuple", "array", "set"))
            op["call"] = rng.choice(("pos", "pos", "kw", "omit"))
        if op is not None and self.w.get("quiet") and rng.random() < self.w["quiet"]:
            # unobserved step: the oracles make no call on the system under test during or after this op, so
            # that stretches of the history contain exactly the calls a caller would make (an oracle that
            # queries the sampler after every step is itself part of the history and can mask state that a
            # query refreshes)
            op["q"] = 1
        return op

    def propose_inner(self, rng):
        n = self.n
        if not self.started or self.needs_start:
            if self.prop == "C35" and not self.started and self.jit is None and rng.random() < 0.3:
                # compiled from a reference sampler that was never started
                return {"op": "jit_create", "twice": rng.random() < 0.5}
            return self.gen_start(rng)
        occd = [i for i, c in enumerate(self.mocc) if c == 1]
        unoc = [i for i, c in enumerate(self.mocc) if c == 0]
        if self.prop == "C35":
            return self.propose_c35(rng, occd, unoc)
        if self.prop == "C34" and rng.random() < 0.45:
            if rng.random() < 0.15:
                return {"op": "dball"}
            return {"op": "db", "n": rng.randrange(64), "stay": rng.random() < 0.6}
        if self.prop == "C33" and rng.random() < 0.04:
            return {"op": "sweep"}
        if rng.random() < 0.03:
            return {"op": "checkpoint", "how": rng.choice(("pickle", "deepcopy", "shallow", "shallow"))}
        if self.companion is not None and rng.random() < 0.08:
            return {"op": "companion", "seed": rng.randrange(1 << 20)}
        if (self.released or self.given_to_jit) and rng.random() < 0.05:
            return {"op": "recycle", "seed": rng.randrange(1 << 20)}
        if self.recent_trials and rng.random() < 0.07:
            # perform a move that was announced by a trial some steps ago (other updates may lie in between)
            a, b = rng.choice(self.recent_trials)
            return {"op": "update", "occ": list(a), "unocc": list(b), "late": 1}
        x = rng.random()
        if x < 0.08:
            return self.gen_start(rng)
        if x < 0.12:
            k = rng.randrange(1, 4)
            return {"op": "edit_then_start", "flips": [rng.randrange(n) for _ in range(k)]}
        if x < 0.16:
            return {"op": "bad_start", "kind": rng.choice(["vac-occupied", "stray-vacancy"]),
                    "site": rng.randrange(n)}
        if x < 0.24:
            # rejected ops
            if self.vacsite is not None and rng.random() < 0.7:
                lst = [rng.randrange(n) for _ in range(rng.randrange(0, 3))]
                side = rng.choice(["occ", "unocc"])
                other = [rng.randrange(n) for _ in range(rng.randrange(0, 2))]
                op = {"op": rng.choice(["update", "trial"]), "occ": other, "unocc": other}
                op[side] = lst + [self.vacsite]
                op["unocc" if side == "occ" else "occ"] = other
                return op
            return {"op": "transitions"}
        if x < 0.40:
            a = rng.sample(unoc, min(len(unoc), rng.randrange(0, 4)))
            b = rng.sample(occd, min(len(occd), rng.randrange(0, 4)))
            if rng.random() < 0.3:
                # redundant entries (sites already in the requested state): documented as skipped
                a = a + [i for i in rng.sample(occd, min(len(occd), 2)) if i not in b]
                b = b + [i for i in rng.sample(unoc, min(len(unoc), 1)) if i not in a]
            return {"op": "trial", "occ": a, "unocc": b}
        if x < 0.48 and self.w["jumps"]:
            return {"op": "transitions"}
        # updates: single swap, single flip, multi-site, redundant entries, duplicates
        y = rng.random()
        if y < 0.35 and occd and unoc:
            return {"op": "update", "occ": [rng.choice(unoc)], "unocc": [rng.choice(occd)]}
        if y < 0.55:
            if rng.random() < 0.5 and unoc:
                return {"op": "update", "occ": [rng.choice(unoc)], "unocc": []}
            if occd:
                return {"op": "update", "occ": [], "unocc": [rng.choice(occd)]}
        if y < 0.80:
            return {"op": "update", "occ": rng.sample(unoc, min(len(unoc), rng.randrange(0, 5))),
                    "unocc": rng.sample(occd, min(len(occd), rng.randrange(0, 5)))}
        # redundant: sites already in the target state (documented no-op), possibly mixed with real ones
        a = rng.sample(unoc, min(len(unoc), rng.randrange(0, 3))) + rng.sample(occd, min(len(occd), rng.randrange(1, 3)))
        b = rng.sample(occd, min(len(occd), rng.randrange(0, 3))) + rng.sample(unoc, min(len(unoc), rng.randrange(0, 2)))
        if self.vacsite is not None:
            a = [i for i in a if i != self.vacsite]
            b = [i for i in b if i != self.vacsite]
        rng.shuffle(a)
        rng.shuffle(b)
        return {"op": "update", "occ": a, "unocc": b}

    def gen_start(self, rng):
        x = rng.random()
        if x < 0.70 or self.mocc is None:
            p = rng.choice((0.2, 0.5, 0.5, 0.8))
            spec = "".join("1" if rng.random() < p else "0" for _ in range(self.n))
        else:
            spec = rng.choice(["zeros", "ones", "current", "current"])
        op = {"op": "start", "occ": spec, "alias": rng.random() < 0.5}
        if rng.random() < 0.3:
            op["arr"] = rng.choice(("int32", "int8", "strided", "uint8"))
        return op

    def propose_c35(self, rng, occd, unoc):
        if self.jit is None:
            return {"op": "jit_create"}
        if self.companion is not None and rng.random() < 0.05:
            return {"op": "companion", "seed": rng.randrange(1 << 20)}
        if (self.released or self.given_to_jit) and rng.random() < 0.05:
            return {"op": "recycle", "seed": rng.randrange(1 << 20)}
        if rng.random() < 0.012:
            return {"op": "longbatch", "L": rng.choice((32760, 65528, 65528, 131064)) + rng.randrange(0, 12),
                    "seed": rng.randrange(1 << 20), "fresh": rng.random() < 0.6, "const": rng.random() < 0.6}
        x = rng.random()
        if x < 0.07:
            return self.gen_start(rng)
        if x < 0.09:
            return {"op": "jit_create", "twice": rng.random() < 0.3}
        if x < 0.11:
            return {"op": "edit_then_start", "flips": [rng.randrange(self.n) for _ in range(rng.randrange(1, 4))],
                    "own": rng.random() < 0.7}
        if x < 0.16:
            return {"op": "jit_copy"}
        if x < 0.20:
            return {"op": "jit_switch"}
        if x < 0.30 and self.w["jumps"]:
            return {"op": "transitions"}
        if x < 0.40:
            return {"op": "swap", "o": rng.randrange(self.n), "u": rng.randrange(self.n), "do": False}
        if x < 0.70:
            return {"op": "swap", "o": rng.randrange(self.n), "u": rng.randrange(self.n), "do": True,
                    "jit_first": rng.random() < 0.5}
        L = rng.choice((0, 1, 2, 4, 8, 16, 32, 64))
        if self.W.exact:
            # dyadic worlds: every dE is exact, so exact ties dE == kTlogu are decidable (the Metropolis rule
            # rejects them); a third of the values sit on the 1/16 grid where ties (incl. dE = 0 = kTlogu) occur
            kt = [rng.randrange(-8, 64) / 16.0 + (0.0 if rng.random() < 0.33 else 1.0 / 32) for _ in range(L)]
        else:
            T = rng.choice((0.1, 0.5, 1.0, 3.0))
            kt = [-T * np.log(1.0 - rng.random()) for _ in range(L)]
        o, u = [rng.randrange(self.n) for _ in range(L)], [rng.randrange(self.n) for _ in range(L)]
        if L >= 2 and rng.random() < 0.3:
            # the same swap proposed twice in a row (with an independent random number each time)
            o = [o[k - k % 2] for k in range(L)]
            u = [u[k - k % 2] for k in range(L)]
        return {"op": "mcmoves", "o": o, "u": u, "kTlogu": kt}

    # ------------------------------------------------------------------ executor
    def apply(self, index, op):
        kind = op["op"]
        if self.needs_start and kind not in ("start", "edit_then_start"):
            return "skip(needs start)"
        if not self.started and kind not in ("start", "edit_then_start", "bad_start", "jit_create"):
            return "skip(not started)"
        self.quiet = bool(op.get("q"))
        obs = getattr(self, "op_" + kind)(index, op)
        if self.quiet:
            self.probes["unobserved-op"] += 1
            return "{}|{}|q".format(obs, occ_to_str(self.mocc) if self.mocc is not None else "-")
        self.check_fresh(index, "after " + kind)
        self.check_jit(index, "after " + kind)
        return "{}|{}|{}".format(obs, occ_to_str(self.mocc) if self.mocc is not None else "-",
                                 fhex(self.mc.E()) if self.started and not self.needs_start else "-")

    def op_start(self, index, op):
        a = self.make_occ(op["occ"])
        if op.get("alias") and self.occ is not None and op["occ"] == "current" and self.started:
            arr = self.occ                      # restart on the very array the sampler already aliases
            self.faults["restart-on-aliased-array"] += 1
        else:
            arr = self.caller_array(a, op.get("arr"))
        if self.started:
            self.faults["restart"] += 1
            if self.occ is not None and arr is not self.occ:
                self.released = (self.released + [self.occ])[-3:]
        self.mc.start(arr)
        self.occ, self.mocc, self.started, self.needs_start = arr, list(a), True, False
        if self.jit is not None:
            self.jit_start(a)
        return "started"

    def op_edit_then_start(self, index, op):
        if self.occ is None:
            return self.op_start(index, {"occ": "zeros"})
        # the caller edits ITS array behind the sampler's back, then restarts on it
        for i in op["flips"]:
            i = i % self.n
            if i != self.vacsite and self.occ[i] in (0, 1):
                self.occ[i] = 1 - self.occ[i]
        self.faults["caller-edit-then-restart"] += 1
        a = [int(x) for x in self.occ]
        if self.vacsite is not None:
            a[self.vacsite] = -1
            self.occ[self.vacsite] = -1
        self.mc.start(self.occ)
        self.mocc, self.started, self.needs_start = a, True, False
        if self.jit is not None:
            if op.get("own"):
                # the same for the compiled sampler: the caller edits the sampler's own occupation buffer in
                # place and restarts on that very array
                buf = self.jit.occ
                for i in range(self.n):
                    buf[i] = a[i]
                self.jit.start(buf)
                self.faults["compiled-restart-on-own-buffer"] += 1
            else:
                self.jit_start(a)
        return "edited+started"

    def op_bad_start(self, index, op):
        a = self.make_occ("current" if self.mocc is not None else "zeros")
        site = op["site"] % self.n
        if op["kind"] == "vac-occupied":
            if self.vacsite is None:
                return "skip(no vacancy)"
            a[self.vacsite] = 1
            exc = (RuntimeWarning,)
        else:
            if site == self.vacsite:
                return "skip(site is the vacancy)"
            a[site] = -1
            exc = (RuntimeError,)
        # C33 says nothing about a start() on an occupation that contradicts the vacancy (today it raises
        # RuntimeWarning / RuntimeError): whatever happens, only a valid start may follow, and nothing is
        # compared in between
        try:
            self.mc.start(np.array(a, dtype=int))
            self.probes["contradictory-start-accepted"] += 1
        except Exception:
            self.faults["failed-start"] += 1
        self.needs_start = True
        return "contradictory-start"

    def _sites(self, lst):
        return [int(i) % self.n for i in lst]

    @staticmethod
    def _as(kind, sites):
        """The API takes any iterable of sites: hand them over as list, tuple, numpy array or set."""
        if kind == "tuple":
            return tuple(sites)
        if kind == "array":
            return np.array(sites, dtype=int)
        if kind == "set" and len(set(sites)) == len(sites):
            return set(sites)
        return list(sites)

    def _call(self, fn, how, a, b):
        """The same call in the conventions a caller may use: positional, keywords (in either order), or
        leaving out an empty trailing/leading list (both parameters default to ())."""
        if how == "kw":
            return fn(unoccsites=b, occsites=a)
        if how == "omit" and len(b) == 0:
            return fn(a)
        if how == "omit" and len(a) == 0:
            return fn(unoccsites=b)
        return fn(a, b)

    def op_trial(self, index, op):
        a, b = self._sites(op["occ"]), self._sites(op["unocc"])
        if self.vacsite is not None and (self.vacsite in a or self.vacsite in b):
            try:
                self.mc.deltaE_trial(a, b)
            except Exception:
                pass       # documented: ValueError; what C33 needs is that nothing changed
            self.unchanged_after_reject(index, "trial-on-vacancy")
            return "rejected"
        if any(self.mocc[i] == 1 for i in a) or any(self.mocc[i] == 0 for i in b):
            self.faults["redundant-trial-entries"] += 1
        d = self._call(self.mc.deltaE_trial, op.get("call"), self._as(op.get("as"), a), self._as(op.get("as"), b))
        self.probes["trial"] += 1
        self.recent_trials = (self.recent_trials + [(a, b)])[-4:]
        return "dE=" + fhex(d)

    def op_update(self, index, op):
        a, b = self._sites(op["occ"]), self._sites(op["unocc"])
        mc = self.mc
        if self.vacsite is not None and (self.vacsite in a or self.vacsite in b):
            try:
                mc.update(a, b)
            except Exception:
                pass       # documented: ValueError, raised before any mutation; C33 needs the state unchanged
            self.unchanged_after_reject(index, "update-on-vacancy")
            return "rejected"
        distinct = len(set(a + b)) == len(a + b)
        redundant = any(self.mocc[i] == 1 for i in a) or any(self.mocc[i] == 0 for i in b)
        if redundant:
            self.faults["redundant-update-entries"] += 1
        if not distinct:
            self.faults["repeated-site-in-update"] += 1
        if len(a) + len(b) > 2:
            self.probes["multi-site-update"] += 1
        if op.get("late"):
            self.probes["update-of-an-earlier-trial"] += 1
        E0 = None if self.quiet else mc.E()
        announced = mc.deltaE_trial(a, b) if (distinct and not self.quiet) else None
        self._call(mc.update, op.get("call"), self._as(op.get("as"), a), self._as(op.get("as"), b))
        if op.get("call") in ("kw", "omit"):
            self.probes["call-convention-" + op["call"]] += 1
        if op.get("as") not in (None, "list"):
            self.probes["sites-as-" + op["as"]] += 1
        for i in a:
            if self.mocc[i] == 0:
                self.mocc[i] = 1
        for i in b:
            if self.mocc[i] == 1:
                self.mocc[i] = 0
        E1 = None if self.quiet else mc.E()
        if self.prop == "C33" and announced is not None and not (np.isinf(E0) or np.isinf(E1)):
            self.checks += 1
            if not self.W.close(E1 - E0, announced):
                self.fail("trial-vs-diff", "deltaE_trial({},{}) announced {!r} but E changed by {!r}".format(
                    a, b, announced, E1 - E0))
        if self.jit is not None:
            # keep the compiled sampler in step (single swaps only reach here in C35 via op_swap)
            self.jit_start(self.mocc)
        return "updated"

    def op_transitions(self, index, op):
        if not self.w["jumps"]:
            try:
                self.mc.transitions()
            except Exception:
                pass
            self.unchanged_after_reject(index, "transitions-without-network")
            return "rejected"
        ij, Q, dx = self.mc.transitions()
        self.probes["transitions"] += 1
        if len(ij) < len(self.mc.jumps):
            self.probes["forbidden-transition"] += 1
        return "T{}:{}".format(len(ij), ",".join(fhex(q) for q in Q[:6]))

    def op_recycle(self, index, op):
        """Double buffering: the caller reuses (overwrites) occupation arrays that are no longer in use -- arrays of
        EARLIER start() calls of the reference sampler (which aliases only the array of its latest start), and any
        array handed to the compiled sampler (which copies)."""
        rnd = random.Random(op.get("seed", 0))
        n = 0
        for arr in self.released + self.given_to_jit:
            if arr is self.occ or (self.occ is not None and np.shares_memory(arr, self.occ)):
                continue
            arr[...] = [rnd.choice((0, 1)) for _ in range(len(arr))]
            n += 1
        if n:
            self.faults["caller-recycles-released-array"] += 1
        return "recycled{}".format(n)

    def op_companion(self, index, op):
        """The caller drives a second live sampler (the decoy built on the same supercell object) in between:
        two live objects of the class must not see each other."""
        c = self.companion
        if c is None:
            return "skip"
        rnd = random.Random(op.get("seed", 0))
        vac = c.vacancy
        if c.occ is None or rnd.random() < 0.3:
            occ = np.array([rnd.choice((0, 1)) for _ in range(self.n)], dtype=int)
            if vac >= 0:
                occ[vac] = -1
            c.start(occ)
        else:
            sites = [i for i in range(self.n) if i != vac]
            a = [i for i in rnd.sample(sites, min(len(sites), 2)) if c.occ[i] == 0]
            b = [i for i in rnd.sample(sites, min(len(sites), 2)) if c.occ[i] == 1 and i not in a]
            c.deltaE_trial(a, b)
            c.update(a, b)
            if self.w["jumps"] or self.w.get("shared_sup") == "jumpnet":
                c.transitions()
        self.faults["companion-sampler-driven"] += 1
        return "companion"

    def op_checkpoint(self, index, op):
        """Crash/restart: the sampler has no save/load of its own, so the only durable form of a running
        simulation is a pickle (or, in-process, a deep copy) of the live object. The process 'dies'; the run
        continues with the restored object, whose occupation array is now the caller's array."""
        if self.prop == "C35":
            return "skip"
        import pickle
        if op.get("how") == "shallow":
            # a replica made with copy.copy() (shares every attribute until it is started) is started on another
            # occupation and dropped; the sampler under test carries on and must not have noticed
            rep_ = copy.copy(self.mc)
            rnd = random.Random(index * 7 + 1)
            occ2 = [rnd.choice((0, 1)) for _ in range(self.n)]
            if self.vacsite is not None:
                occ2[self.vacsite] = -1
            rep_.start(np.array(occ2, dtype=int))
            if self.w["jumps"]:
                rep_.transitions()
            self.faults["shallow-replica-started"] += 1
            return "replica"
        try:
            dup = pickle.loads(pickle.dumps(self.mc)) if op.get("how") == "pickle" else copy.deepcopy(self.mc)
        except Exception:
            # a sampler that cannot be pickled/copied is not a violation of C33/C34: nothing is claimed about it
            self.probes["checkpoint-unsupported"] += 1
            return "unsupported"
        self.released = (self.released + [self.occ])[-3:]      # the dead process's array
        self.mc, self.occ = dup, dup.occ
        self.faults["restored-from-checkpoint"] += 1
        return "restored"

    def op_sweep(self, index, op):
        """Bounded local exhaustion inside a history: from the current state, every single-site flip and (in
        small cells) every swap is announced, performed, compared and undone."""
        if self.prop != "C33":
            return "skip"
        mc = self.mc
        E0 = mc.E()
        sites = [i for i in range(self.n) if i != self.vacsite]
        moves = [((i,), ()) if self.mocc[i] == 0 else ((), (i,)) for i in sites]
        if self.n <= 12:
            moves += [((i,), (j,)) for i in sites for j in sites if self.mocc[i] == 0 and self.mocc[j] == 1]
        for a, b in moves[:200]:
            d = mc.deltaE_trial(a, b)
            mc.update(a, b)
            E1 = mc.E()
            self.checks += 1
            if not (np.isinf(E0) or np.isinf(E1)) and not self.W.close(E1 - E0, d):
                self.fail("trial-vs-diff", "sweep: deltaE_trial({},{}) announced {!r} but E changed by {!r} (from {})".format(
                    a, b, d, E1 - E0, occ_to_str(self.mocc)))
            mc.update(b, a)
            if not self.W.close(mc.E(), E0):
                self.fail("E-fresh", "sweep: undoing update({},{}) did not restore E".format(a, b))
        self.probes["local-sweep-moves"] += min(len(moves), 200)
        return "sweep{}".format(min(len(moves), 200))

    def op_dball(self, index, op):
        """Every transition reported at the current state is checked (performed and undone)."""
        if not self.w["jumps"] or self.prop != "C34":
            return "skip"
        n = len(self.mc.transitions()[0])
        for k in range(min(n, 48)):
            self.op_db(index, {"n": k, "stay": False})
        self.probes["all-transitions-swept"] += 1
        return "dball{}".format(min(n, 48))

    # ------------------------------------------------------------------ C34
    def find_reverse(self, trans, i, j, dx):
        ij, Q, dxl = trans
        for (a, b), q, d in zip(ij, Q, dxl):
            if a == j and b == i and np.allclose(np.array(d) + np.array(dx), 0, atol=1e-8):
                return q
        return None

    def op_db(self, index, op):
        if not self.w["jumps"] or self.prop != "C34":
            return "skip"
        mc = self.mc
        ij, Q, dxl = mc.transitions()
        if len(ij) == 0:
            self.probes["no-transition-available"] += 1
            return "none"
        k = op["n"] % len(ij)
        (i, j), q, dx = ij[k], float(Q[k]), np.array(dxl[k])
        E0 = mc.E()
        self.checks += 1
        if self.vacsite is None:
            if self.mocc[i] != 1 or self.mocc[j] != 0:
                self.fail("forbidden-listed", "transition {}->{} reported but occupation is {}".format(
                    i, j, occ_to_str(self.mocc)))
            mc.update((j,), (i,))
            self.mocc[j], self.mocc[i] = 1, 0
            E1 = mc.E()
            t2 = mc.transitions()
            if (i, j) in t2[0]:
                self.fail("forward-still-listed", "{}->{} still reported after it was performed".format(i, j))
            qrev = self.find_reverse(t2, i, j, dx)
            if qrev is None:
                self.fail("reverse-missing", "after {}->{} (dx={}) no transition {}->{} with -dx is reported".format(
                    i, j, list(dx), j, i))
            if np.isinf(q) or np.isinf(qrev):
                # a blocked jump type (KRA = +inf): forward and reverse barrier must both be +inf, nothing more to say
                if not (q == np.inf and qrev == np.inf):
                    self.fail("balance", "{}->{}: Q={!r} Qrev={!r}: a blocked jump must be blocked both ways".format(i, j, q, qrev))
            elif not self.W.close(q - qrev, E1 - E0):
                self.fail("balance", "{}->{}: Q={!r} Qrev={!r} but E1-E0={!r} (occ now {})".format(
                    i, j, q, qrev, E1 - E0, occ_to_str(self.mocc)))
            if not op["stay"]:
                mc.update((i,), (j,))
                self.mocc[i], self.mocc[j] = 1, 0
                if not self.W.close(mc.E(), E0):
                    self.fail("balance", "undoing {}->{} did not restore the energy".format(i, j))
            self.probes["db-checked"] += 1
        else:
            if i != self.vacsite:
                self.fail("forbidden-listed", "vacancy at {} but transition {}->{} reported".format(self.vacsite, i, j))
            if j not in self.samplers:
                if self.W.shared is not None:
                    if (index + j) % 2:
                        self.W.sampler(vacsite=j, decoy=True)
                    self.faults["sampler-built-on-shared-supercell"] += 1
                self.samplers[j] = self.W.sampler(vacsite=j)
                self.probes["vacancy-sampler-built"] += 1
            occ2 = list(self.mocc)
            occ2[i], occ2[j] = self.mocc[j], -1
            mc2 = copy.deepcopy(self.samplers[j])
            arr2 = np.array(occ2, dtype=int)
            mc2.start(arr2)
            E2 = mc2.E()
            t2 = mc2.transitions()
            qrev = self.find_reverse(t2, i, j, dx)
            if qrev is None:
                self.fail("reverse-missing", "vacancy {}->{} (dx={}): no reverse transition with -dx in the final cell".format(
                    i, j, list(dx)))
            if np.isinf(q) or np.isinf(qrev):
                if not (q == np.inf and qrev == np.inf):
                    self.fail("balance", "vacancy {}->{}: Q={!r} Qrev={!r}: a blocked jump must be blocked both ways".format(i, j, q, qrev))
            elif not self.W.close(E0 + q, E2 + qrev):
                self.fail("balance", "vacancy {}->{}: E0+Q={!r} but E2+Qrev={!r}".format(i, j, E0 + q, E2 + qrev))
            self.probes["db-vacancy-checked"] += 1
            if op["stay"]:
                # the walk continues from the final configuration
                if self.W.vacsite not in self.samplers:
                    self.samplers[self.W.vacsite] = self.tmpl
                self.mc, self.occ, self.mocc, self.vacsite = mc2, arr2, occ2, j
                self.probes["vacancy-moved"] += 1
        self.note_state(self.w["class"], occ_to_str(self.mocc), self.vacsite)
        return "db {}->{} Q={}".format(i, j, fhex(q))

    # ------------------------------------------------------------------ C35
    def op_jit_create(self, index, op):
        if self.prop != "C35":
            return "skip"
        if getattr(self.mc.siteinteract, "ndim", 2) != 2 or self.mc.siteinteract.shape[1] == 0:
            # a sampler without a single interaction (every mobile site interaction-free or vacant): there is
            # nothing to sample and the site-interaction table has no columns; like the atom-free cell, outside any
            # sensible domain (the compiled class cannot even be typed for it)
            self.probes["no-interaction-at-all"] += 1
            return "skip(no interactions)"
        param = cluster.MonteCarloSampler_param(self.mc)
        self.jit = cluster.MonteCarloSampler_jit(**param)
        self.jit_other = None
        if op.get("twice"):
            # a replica driver: a SECOND compiled sampler from the same reference, alive beside the first and left
            # alone while the first is driven (check_other: it must not change)
            self.jit_other = cluster.MonteCarloSampler_jit(**cluster.MonteCarloSampler_param(self.mc))
            self.jit_other_snap = self.jit_snapshot(self.jit_other)
            self.faults["second-compiled-sampler-from-same-reference"] += 1
        if not self.started:
            # documented: an un-started reference gives a compiled sampler that is fully occupied
            self.faults["jit-created-before-start"] += 1
            a = self.make_occ("ones")
            arr = np.array(a, dtype=int)
            self.mc.start(arr)
            self.occ, self.mocc, self.started = arr, list(a), True
        else:
            self.faults["jit-created-mid-history"] += 1
        return "jit"

    def op_jit_copy(self, index, op):
        if self.jit is None:
            return "skip"
        c = self.jit.copy()
        self.jit_other = c
        self.jit_other_snap = self.jit_snapshot(c)
        self.faults["jit-copy-kept"] += 1
        return "copied"

    def op_jit_switch(self, index, op):
        if self.jit is None or self.jit_other is None:
            return "skip"
        self.check_other("before switch")
        self.jit, self.jit_other = self.jit_other, self.jit
        self.jit_other_snap = self.jit_snapshot(self.jit_other)
        a = [int(x) for x in self.jit.occ]
        arr = np.array(a, dtype=int)
        self.released = (self.released + [self.occ])[-3:]
        self.mc.start(arr)
        self.occ, self.mocc = arr, a
        self.faults["jit-switched-to-copy"] += 1
        return "switched"

    def jit_snapshot(self, j):
        return (tuple(int(x) for x in j.occ), fhex(j.E()),
                frozenset(int(x) for x in j.occupied_set[:j.Nocc]),
                frozenset(int(x) for x in j.unoccupied_set[:j.Nunocc]), tuple(int(x) for x in j.clustercount))

    def check_other(self, where):
        if self.jit_other is not None:
            self.checks += 1
            if self.jit_snapshot(self.jit_other) != self.jit_other_snap:
                self.fail("copy-alias", "{}: a kept copy of the compiled sampler changed although only the other was driven".format(where))

    def op_swap(self, index, op):
        if self.jit is None:
            return "skip"
        occd = [i for i, c in enumerate(self.mocc) if c == 1]
        unoc = [i for i, c in enumerate(self.mocc) if c == 0]
        if not occd or not unoc:
            return "skip(no swap possible)"
        o, u = unoc[op["o"] % len(unoc)], occd[op["u"] % len(occd)]
        d_ref = float("nan")
        if not (self.quiet and op["do"]):
            d_ref = self.mc.deltaE_trial((o,), (u,))
            d_jit = self.jit.deltaE_trial(o, u)
            self.checks += 1
            if not self.W.close(d_ref, d_jit):
                self.fail("trial", "deltaE_trial({},{}) reference {!r} compiled {!r}".format(o, u, d_ref, d_jit))
        if op["do"]:
            # two independent samplers: the order in which the caller advances them must not matter
            if op.get("jit_first"):
                self.jit.update(o, u)
                self.mc.update((o,), (u,))
                self.probes["compiled-updated-first"] += 1
            else:
                self.mc.update((o,), (u,))
                self.jit.update(o, u)
            self.mocc[o], self.mocc[u] = 1, 0
        return "swap {} {} dE={}".format(o, u, fhex(d_ref))

    def op_mcmoves(self, index, op):
        if self.jit is None:
            return "skip"
        jit = self.jit
        Nocc, Nun = int(jit.Nocc), int(jit.Nunocc)
        if Nocc == 0 or Nun == 0:
            return "skip(no moves possible)"
        L = min(len(op["o"]), len(op["u"]), len(op["kTlogu"]))
        oc = np.array([int(x) % Nun for x in op["o"][:L]], dtype=np.int64)
        uc = np.array([int(x) % Nocc for x in op["u"][:L]], dtype=np.int64)
        kt = np.array([float(x) for x in op["kTlogu"][:L]], dtype=np.float64) * self.W.unit   # in the world's energy unit
        # (a) a compiled copy driven move by move, (b) the reference driven by the Metropolis rule
        step = jit.copy()
        ref = self.mc
        nacc = 0
        for k in range(L):
            o, u = int(step.unoccupied_set[oc[k]]), int(step.occupied_set[uc[k]])
            d_ref = ref.deltaE_trial((o,), (u,))
            if d_ref == kt[k]:
                self.probes["exact-tie-in-batch"] += 1
            if not self.W.exact and abs(d_ref - kt[k]) <= 1e-9 * self.W.scale:
                # a tie within round-off: the statement cannot be decided; truncate the batch here
                L = k
                self.probes["batch-truncated-at-tie"] += 1
                break
            d_step = step.deltaE_trial(o, u)
            if d_step < kt[k]:
                step.update(o, u)
            if d_ref < kt[k]:
                ref.update((o,), (u,))
                self.mocc[o], self.mocc[u] = 1, 0
                nacc += 1
        oc, uc, kt = oc[:L], uc[:L], kt[:L]
        jit.MCmoves(oc, uc, kt)          # an empty batch (L == 0) is a legal call and must change nothing
        if L == 0:
            self.probes["empty-batch"] += 1
        self.faults["injected-random-batch"] += 1
        self.probes["mcmoves-accepted"] += nacc
        self.probes["mcmoves-rejected"] += L - nacc
        self.checks += 1
        if [int(x) for x in jit.occ] != [int(x) for x in step.occ]:
            self.fail("mcmoves-vs-stepwise", "batch of {} moves left occ {} but move-by-move gives {}".format(
                L, occ_to_str(jit.occ), occ_to_str(step.occ)))
        if [int(x) for x in jit.occ] != self.mocc:
            self.fail("mcmoves-vs-reference", "batch of {} moves left occ {} but the reference sampler under the "
                      "Metropolis rule is at {}".format(L, occ_to_str(jit.occ), occ_to_str(self.mocc)))
        if self.jit_snapshot(jit) != self.jit_snapshot(step):
            self.fail("mcmoves-vs-stepwise", "batch and move-by-move application disagree in internal state")
        return "mc{}:{}".format(L, nacc)

    def op_longbatch(self, index, op):
        """A long batch of moves that are all rejected (kTlogu = -1e300): tens of thousands of trial evaluations on
        one compiled sampler object, with lengths around 2^15 and 2^16 -- the generic boundary of any narrow
        counter. Nothing may change, and the trial values afterwards must still be the reference's."""
        if self.jit is None:
            return "skip"
        # on the live compiled sampler, or on a copy made for the purpose (a new object whose evaluation count is
        # known to start at zero, so that the queries below straddle the boundary exactly)
        jit = self.jit.copy() if op.get("fresh") else self.jit
        Nocc, Nun = int(jit.Nocc), int(jit.Nunocc)
        if Nocc == 0 or Nun == 0:
            return "skip(no moves possible)"
        L = int(op["L"])
        g = np.random.Generator(np.random.PCG64(int(op.get("seed", 0))))
        if op.get("const"):
            # the same move over and over (a frozen configuration at low temperature): only the interactions of
            # two sites are ever touched
            oc = np.full(L, int(g.integers(0, Nun)), dtype=np.int64)
            uc = np.full(L, int(g.integers(0, Nocc)), dtype=np.int64)
        else:
            oc = g.integers(0, Nun, size=L, dtype=np.int64)
            uc = g.integers(0, Nocc, size=L, dtype=np.int64)
        before = self.jit_snapshot(jit)
        jit.MCmoves(oc, uc, np.full(L, -np.inf))       # dE < -inf never holds (not even for dE = -inf or NaN)
        self.checks += 1
        if self.jit_snapshot(jit) != before:
            self.fail("mcmoves-vs-reference", "a batch of {} moves that must all be rejected changed the compiled sampler".format(L))
        self.faults["long-rejected-batch"] += 1
        occd = [i for i, c in enumerate(self.mocc) if c == 1]
        unoc = [i for i, c in enumerate(self.mocc) if c == 0]
        rnd = random.Random(int(op.get("seed", 0)) + 1)
        for _ in range(10):
            o, u = rnd.choice(unoc), rnd.choice(occd)
            a, b = self.mc.deltaE_trial((o,), (u,)), jit.deltaE_trial(o, u)
            if not self.W.close(a, b):
                self.fail("trial", "after {} trial evaluations: deltaE_trial({},{}) reference {!r} compiled {!r}".format(L, o, u, a, b))
        return "long{}".format(L)

    def check_jit(self, index, where):
        if self.prop != "C35" or self.jit is None or not self.started or self.needs_start:
            return
        jit, mc = self.jit, self.mc
        self.checks += 1
        jocc = [int(x) for x in jit.occ]
        if jocc != self.mocc or [int(x) for x in self.occ] != self.mocc:
            self.fail("occ", "{}: compiled occ {} reference {} model {}".format(
                where, occ_to_str(jocc), occ_to_str(self.occ), occ_to_str(self.mocc)))
        Ej, Er = jit.E(), mc.E()
        if not self.W.close(Ej, Er):
            self.fail("E", "{}: compiled E={!r} reference E={!r}".format(where, Ej, Er))
        Nocc, Nun = int(jit.Nocc), int(jit.Nunocc)
        so = [int(x) for x in jit.occupied_set[:Nocc]]
        su = [int(x) for x in jit.unoccupied_set[:Nun]]
        if set(so) != set(mc.occupied_set) or set(su) != set(mc.unoccupied_set) or \
                len(set(so)) != len(so) or len(set(su)) != len(su):
            self.fail("sets", "{}: compiled sets {} / {} reference {} / {}".format(
                where, sorted(so), sorted(su), sorted(mc.occupied_set), sorted(mc.unoccupied_set)))
        for i, c in enumerate(self.mocc) if hasattr(jit, "index") else ():
            k = int(jit.index[i])
            if (c == 1 and not (0 <= k < Nocc and so[k] == i)) or \
                    (c == 0 and not (0 <= k < Nun and su[k] == i)) or (c == -1 and k != -1):
                self.fail("index", "{}: index table wrong at site {} (occ {}, index {})".format(where, i, c, k))
        # trial moves on a few seeded swaps
        occd = [i for i, c in enumerate(self.mocc) if c == 1]
        unoc = [i for i, c in enumerate(self.mocc) if c == 0]
        if occd and unoc:
            rnd = random.Random(self.w["vseed"] * 104729 + index)
            for _ in range(2):
                o, u = rnd.choice(unoc), rnd.choice(occd)
                a, b = mc.deltaE_trial((o,), (u,)), jit.deltaE_trial(o, u)
                if not self.W.close(a, b):
                    self.fail("trial", "{}: deltaE_trial({},{}) reference {!r} compiled {!r}".format(where, o, u, a, b))
        if self.w["jumps"]:
            ij, Q, dx = mc.transitions()
            jij, jQ, jdx = jit.transitions()
            fin = [k for k in range(len(jQ)) if np.isfinite(jQ[k])]
            if any(not (jQ[k] == np.inf) for k in range(len(jQ)) if k not in set(fin)):
                self.fail("transitions", "{}: a forbidden transition is not marked +inf".format(where))
            if [(int(jij[k][0]), int(jij[k][1])) for k in fin] != [(int(a), int(b)) for a, b in ij]:
                self.fail("transitions", "{}: compiled sampler allows {} transitions, reference {}".format(
                    where, len(fin), len(ij)))
            for k, q, d in zip(fin, Q, dx):
                if not self.W.close(float(jQ[k]), float(q)) or not np.allclose(jdx[k], d):
                    self.fail("transitions", "{}: barrier/displacement of {}->{} compiled {!r} reference {!r}".format(
                        where, int(jij[k][0]), int(jij[k][1]), float(jQ[k]), float(q)))
            if len(fin) < len(jQ):
                self.probes["forbidden-marked-inf"] += 1
        self.check_other(where)
        if self.jit_other is not None and self.w["jumps"]:
            # what transitions() handed out for one compiled sampler must not change when ANOTHER compiled sampler
            # (a copy, or a second one from the same reference) is queried: copies are independent objects
            Q1 = jit.transitions()[1]
            keep = [float(x) for x in Q1]
            self.jit_other.transitions()
            self.checks += 1
            if [float(x) for x in Q1] != keep and not all(a != a and b != b or a == b for a, b in zip([float(x) for x in Q1], keep)):
                self.fail("copy-alias", "{}: the barriers one compiled sampler reported changed when another compiled "
                          "sampler was queried".format(where))
        self.note_state(self.w["class"], occ_to_str(self.mocc), "jit")

    # ------------------------------------------------------------------ quiescent sweep
    def finish(self):
        if self.started and not self.needs_start:
            self.check_fresh(10 ** 6, "quiescent sweep")
            self.check_jit(10 ** 6, "quiescent sweep")
            if self.prop == "C33":
                # restart on a copy of the final occupation: must reproduce itself
                E = self.mc.E()
                self.mc.start(np.array(self.mocc, dtype=int))
                if not self.W.close(E, self.mc.E()):
                    self.fail("E-fresh", "restart on the final occupation changed E from {!r} to {!r}".format(E, self.mc.E()))
        return "swept"


class Engine(object):
    sut_packages = ("/numba/",)   # numba only runs on behalf of MonteCarloSampler_jit

    def __init__(self, prop, tier):
        assert prop in ("C33", "C34", "C35")
        self.prop, self.tier = prop, tier
        if prop == "C35":
            # compile once per worker (about 3 s); not part of any run
            W = World({"crystal": "sc", "super": "211", "cutoff": 1.01, "order": 2, "vac": False, "vacsite": 0,
                       "jumps": True, "kra": "scalar", "ts": False, "values": "dyadic", "vseed": 1, "sseed": 1})
            mc = W.sampler()
            j = cluster.MonteCarloSampler_jit(**cluster.MonteCarloSampler_param(mc))
            j.start(np.array([0, 1], dtype=np.int64))
            j.E()
            j.deltaE_trial(0, 1)
            j.copy()
            j.MCmoves(np.zeros(1, dtype=np.int64), np.zeros(1, dtype=np.int64), np.ones(1))

    def draw_world(self, rng):
        for _ in range(50):
            c = rng.choice(sorted(CRYSTALS))
            s = rng.choice(sorted(SUPERS))
            cutoff = rng.choice(CRYSTALS[c][0])
            order = rng.choice((1, 2, 3, 3, 3, 4))
            if cutoff > 1.2 and c in ("fcc", "sc"):
                order = min(order, 2)        # long-range pairs only (cluster counts explode otherwise)
            S = np.array(SUPERS[s])
            nsites = abs(int(round(np.linalg.det(S)))) * NSITES.get(c, 1)
            if nsites > (54 if self.tier == "thorough" else 36):
                continue
            jumps = True if self.prop == "C34" else rng.random() < 0.6
            vac = rng.random() < 0.45
            ts_drawn = rng.random() < 0.6
            if self.prop == "C34" and not c34_admissible(c, s, cutoff, order, vac or ts_drawn):
                continue
            if vac and nsites < 2:
                continue   # a cell whose only site is the vacancy holds no atoms: no sampler to speak of
            w = {"crystal": c, "super": s, "cutoff": cutoff, "order": order, "vac": vac,
                 "vacsite": rng.randrange(64), "jumps": jumps,
                 "kra": rng.choice(("scalar", "list", "zero") + (("blocked",) if self.prop != "C35" else ())),
                 "ts": jumps and ts_drawn, "values": rng.choice(("dyadic", "dyadic", "normal", "coarse", "integer", "wide", "tiny", "huge")),
                 "vseed": rng.randrange(1 << 30), "sseed": rng.randrange(1 << 30)}
            if not jumps and rng.random() < 0.12:
                w["values"] = "hardcore"
            w["shared_sup"] = rng.choice((False, False, False, False, False, "values", "jumpnet", "expansion"))
            w["quiet"] = rng.choice((0, 0, 0.5, 0.9))
            w["merge"] = rng.random() < 0.25
            w["noconst"] = rng.random() < 0.2
            w["jnperm"] = rng.choice((None, None, None, "split", "shuffle"))
            w["class"] = "{}/{}/c{}o{}{}{}{}".format(c, s, cutoff, order, "/vac" if vac else "",
                                                     "/jn" if jumps else "", "/ts" if w["ts"] else "")
            return w
        raise RuntimeError("no admissible world found")

    def draw_length(self, rng):
        if self.prop == "C34":
            return rng.choice((4, 10, 25, 50))
        return rng.choice((5, 15, 40, 80, 150))

    def new_run(self, world):
        return Run(self.prop, world)

    @staticmethod
    def shrink_op(op):
        if op["op"] in ("update", "trial"):
            for key in ("occ", "unocc"):
                for k in range(len(op.get(key, []))):
                    yield dict(op, **{key: op[key][:k] + op[key][k + 1:]})
        elif op["op"] == "mcmoves":
            L = len(op["o"])
            for cut in (1, L // 2, L - 1):
                if 0 < cut < L:
                    yield dict(op, o=op["o"][:cut], u=op["u"][:cut], kTlogu=op["kTlogu"][:cut])
        elif op["op"] == "start" and op.get("occ") not in ("zeros", "ones"):
            yield dict(op, occ="zeros")
            yield dict(op, occ="ones")
