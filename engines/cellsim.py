"""cellsim -- C28: Supercell occupancy bookkeeping over arbitrary edit histories.

System simulated: a small population of live onsager.supercell.Supercell objects that are
copies / symmetry images of one another, a scripted editor, and a stub "VASP peer" that rewrites
POSCAR text in the dialects POSCAR_occ claims to read.  Reference model: per object a plain
`occ` list, an `order` list of lists and a `chem` name list, updated by the documented semantics.
See DESIGN.md section 4.3.
"""
import copy
import random

import numpy as np

from onsager import crystal, supercell
from simkit.core import RunBase, Violation

PROP = "C28"
MAXOBJ = 4

SUPERS = {
    "1": [[1, 0, 0], [0, 1, 0], [0, 0, 1]],
    "211": [[2, 0, 0], [0, 1, 0], [0, 0, 1]],
    "221": [[2, 0, 0], [0, 2, 0], [0, 0, 1]],
    "222": [[2, 0, 0], [0, 2, 0], [0, 0, 2]],
    "rot2": [[1, 1, 0], [-1, 1, 0], [0, 0, 1]],
    "shear4": [[2, 1, 0], [0, 2, 0], [0, 0, 1]],
    "conv4": [[-1, 1, 1], [1, -1, 1], [1, 1, -1]],
    "mix4": [[2, 0, 0], [0, 1, 1], [0, -1, 1]],
    "311": [[3, 0, 0], [0, 1, 0], [0, 0, 1]],
    "odd6": [[1, 0, 1], [0, 2, 0], [-1, 0, 2]],
    "neg2": [[1, 0, 0], [0, -1, 0], [0, 0, 2]],
    # cells with more sites than a signed (150) or unsigned (288, thorough tier) byte can count: drawn rarely, for
    # one-site-per-cell crystals only (building the supercell group costs 0.6 s and 2.5 s per worker)
    "big150": [[5, 0, 0], [0, 5, 0], [0, 0, 6]],
    "big288": [[6, 0, 0], [0, 6, 0], [0, 0, 8]],
}
BIG = ("big150", "big288")
CRYSTALS = ("fcc", "hcp", "b2", "fccint", "intfirst", "tet2", "fcctet")
DIALECTS = ("plain", "cart", "selective", "names", "scaled", "wrapped", "jitter", "trim")


def make_crystal(name):
    if name == "fcc":
        return crystal.Crystal.FCC(1.2, "Ni"), ()
    if name == "hcp":
        return crystal.Crystal.HCP(1.0, chemistry="Mg"), ()
    if name == "b2":
        return crystal.Crystal(1.1 * np.eye(3), [[np.zeros(3)], [0.5 * np.ones(3)]], ["A", "B"]), ()
    if name == "fccint":
        fcc = crystal.Crystal.FCC(1.3, "Ni")
        return crystal.Crystal(fcc.lattice, [[np.zeros(3)], [np.array([0.5, 0.5, 0.5])]], ["Ni", "C"]), (1,)
    if name == "intfirst":
        # the interstitial sublattice is chemistry index 0 (host is index 1)
        fcc = crystal.Crystal.FCC(1.3, "Ni")
        return crystal.Crystal(fcc.lattice, [[np.array([0.5, 0.5, 0.5])], [np.zeros(3)]], ["C", "Ni"]), (0,)
    if name == "fcctet":
        # dense interstitial network at unit lattice constant (octahedral + both tetrahedral sites): in 2x2x2 and
        # larger cells a neighbouring site lies inside POSCAR_occ's default matching threshold, so "a site within
        # the threshold" and "the closest site" are different sites
        fcc = crystal.Crystal.FCC(1.0, "Ni")
        return crystal.Crystal(fcc.lattice, [[np.zeros(3)], [np.array([0.5, 0.5, 0.5]), np.array([0.25, 0.25, 0.25]),
                                                             np.array([0.75, 0.75, 0.75])]], ["Ni", "H"]), (1,)
    if name == "tet2":
        return crystal.Crystal(np.diag([1.0, 1.0, 1.5]),
                               [[np.zeros(3), np.array([0.5, 0.5, 0.3])]], ["T"]), ()
    raise KeyError(name)


_CRYS, _BASE = {}, {}


def base_cell(world):
    scale = float(world.get("scale", 1.0))
    key = (world["crystal"], world["super"], world["Nsolute"], tuple(world["interstitial"]), bool(world.get("nosym")), scale)
    if key not in _BASE:
        ckey = (world["crystal"], scale)
        if ckey not in _CRYS:
            crys0, inter0 = make_crystal(world["crystal"])
            if scale != 1.0:
                # the same structure at another length scale (lattice constant x scale): thresholds that are
                # absolute in Cartesian or in direct coordinates see a different geometry
                crys0 = crystal.Crystal(scale * crys0.lattice, crys0.basis, crys0.chemistry)
            _CRYS[ckey] = (crys0, inter0)
        crys, _ = _CRYS[ckey]
        sup = supercell.Supercell(crys, np.array(SUPERS[world["super"]]),
                                  interstitial=tuple(world["interstitial"]), Nsolute=world["Nsolute"],
                                  NOSYM=bool(world.get("nosym")))
        glist = sorted(sup.G, key=lambda g: (g.indexmap[0], tuple(g.rot.flatten())))
        _BASE[key] = (sup, glist)
    return _BASE[key]


def pristine_cell(base):
    """An independent empty supercell for a run. Not made with the SUT's own copy() (a copy() that shares
    state would then leak edits into the per-worker cached cell and from there into later runs): Python's
    deepcopy, sharing only the immutable geometry."""
    memo = {}
    for attr in ("crys", "G", "pos", "translist", "transdict", "atomindices", "indexatom", "invsuper",
                 "lattice", "superlatt", "Wyckofflist", "Wyckoffchem"):
        v = getattr(base, attr)
        memo[id(v)] = v
    return copy.deepcopy(base, memo)


class Model(object):
    """Reference: what a supercell's bookkeeping must be."""

    def __init__(self, nsites, nchem, chem):
        self.occ = [-1] * nsites
        self.order = [[] for _ in range(nchem)]
        self.chem = list(chem)

    def copy(self):
        return copy.deepcopy(self)

    def setocc(self, i, c):
        o = self.occ[i]
        if o != c:
            if o >= 0:
                self.order[o].remove(i)
            if c >= 0:
                self.order[c].append(i)
            self.occ[i] = c

    def key(self):
        return tuple(self.occ), tuple(tuple(l) for l in self.order)


def parse_poscar(text):
    """Peer-side parser of the POSCAR text written by Supercell.POSCAR() (tolerates an element-name line,
    a 'Selective dynamics' line and Cartesian coordinates, so that a differently formatted but correct
    writer is still understood)."""
    lines = text.split("\n")
    name = lines[0]
    a0 = float(lines[1])
    latt = [[float(x) for x in lines[2 + k].split()] for k in range(3)]
    at = 5
    names = None
    if not ("0" <= lines[at].split()[0][0] <= "9"):
        names = lines[at].split()                 # element names
        at += 1
    counts = [int(x) for x in lines[at].split()]
    parse_poscar.names = names
    at += 1
    if lines[at].strip()[:1] in ("s", "S"):
        at += 1
    mode = lines[at].strip()
    at += 1
    n = sum(counts)
    coords = [[float(x) for x in lines[at + k].split()[:3]] for k in range(n)]
    if mode[:1] in ("c", "C", "k", "K"):
        inv = np.linalg.inv(np.array(latt).T * a0)
        coords = [list(np.dot(inv, np.array(u))) for u in coords]
        mode = "Direct"
    return name, a0, latt, counts, mode, coords


def fmt_poscar(name, a0, latt, counts, mode, coords, names=None, selective=False):
    out = [name, "{:.12f}".format(a0)]
    for row in latt:
        out.append(" ".join("{:21.16f}".format(x) for x in row))
    if names is not None:
        out.append(" ".join(names))
    out.append(" ".join(str(c) for c in counts))
    if selective:
        out.append("Selective dynamics")
    out.append(mode)
    for u in coords:
        s = " " + " ".join("{:19.16f}".format(x) for x in u)
        if selective:
            s += " T T F"
        out.append(s)
    return "\n".join(out) + "\n"


def peer_rewrite(text, dialect, k, chem, nchem):
    """The stub VASP peer: rewrite a plain POSCAR in another legal dialect. Returns (text, dialect used)."""
    name, a0, latt, counts, mode, coords = parse_poscar(text)
    rnd = random.Random(k)
    if dialect == "cart":
        A = np.array(latt).T  # columns are lattice vectors
        coords = [list(np.dot(A, np.array(u))) for u in coords]
        return fmt_poscar(name, a0, latt, counts, "Cartesian", coords), dialect
    if dialect == "selective":
        return fmt_poscar(name, a0, latt, counts, "Direct", coords, selective=True), dialect
    if dialect == "names":
        nm = list(chem[:nchem])
        if all(nm) and len(set(nm)) == len(nm) and not any("0" <= s[0] <= "9" for s in nm) and "v" not in nm:
            return fmt_poscar(name, a0, latt, counts, "Direct", coords, names=nm), dialect
        return text, "plain"
    if dialect == "scaled":
        s = 2.5
        latt = [[x / s for x in row] for row in latt]
        return fmt_poscar(name, s, latt, counts, "direct", coords), dialect
    if dialect == "wrapped":
        coords = [[x + rnd.choice((-1, 0, 1)) for x in u] for u in coords]
        return fmt_poscar(name, a0, latt, counts, "Direct", coords), dialect
    if dialect == "jitter":
        coords = [[x + rnd.uniform(-1e-4, 1e-4) for x in u] for u in coords]
        return fmt_poscar(name, a0, latt, counts, "Direct", coords), dialect
    if dialect == "trim":
        c2 = list(counts)
        while len(c2) > 1 and c2[-1] == 0:
            c2.pop()
        if c2 and c2[0] >= 0 and len(c2) >= 1:
            return fmt_poscar(name, a0, latt, c2, "Direct", coords), dialect
    return text, "plain"


class Run(RunBase):
    def __init__(self, world):
        RunBase.__init__(self)
        self.world = world
        base, self.glist = base_cell(world)
        self.base = base
        self.nsites = base.N * base.size
        self.nchem = base.Nchem
        self.ncrys = base.crys.Nchem
        self.atomindices = list(base.atomindices)
        self.objs = [pristine_cell(base)]
        self.models = [Model(self.nsites, self.nchem, base.chemistry)]
        self.relatives = False  # some object has a live copy

    # ---- helpers ---------------------------------------------------------
    def fail(self, oracle, detail):
        raise Violation(PROP, oracle, detail)

    def check_obj(self, k, where, quiet=False):
        sup, m = self.objs[k], self.models[k]
        self.checks += 1
        occ = [int(x) for x in sup.occ]
        order = [[int(i) for i in l] for l in sup.chemorder]
        if occ != m.occ:
            self.fail("occ-model", "{}: object {} occ {} != model {}".format(where, k, occ, m.occ))
        if order != m.order:
            self.fail("order-model", "{}: object {} chemorder {} != model {}".format(where, k, order, m.order))
        # independent consistency predicate (not the SUT's own __sane__)
        seen = {}
        for c, l in enumerate(order):
            for i in l:
                if i in seen or not (0 <= i < self.nsites) or occ[i] != c:
                    self.fail("insane", "{}: object {} occ/chemorder disagree at site {}".format(where, k, i))
                seen[i] = c
        for i, c in enumerate(occ):
            if i not in seen and c != -1:
                self.fail("insane", "{}: object {} site {} has species {} but is in no list".format(where, k, i, c))
        if quiet:
            return      # unobserved step: attributes were read, but no method of the object is called
        if not sup.__sane__():
            self.fail("insane", "{}: object {} __sane__() is False".format(where, k))
        if list(sup.chemistry) != m.chem:
            self.fail("chem-model", "{}: object {} chemistry {} != model {}".format(where, k, sup.chemistry, m.chem))
        # stoichiometry(): only the counts are compared (its formatting is not part of C28)
        import re as _re
        cnt = [int(x) for x in _re.findall(r"\((\d+)\)", sup.stoichiometry())]
        if cnt != [len(l) for l in m.order]:
            self.fail("stoichiometry", "{}: object {} stoichiometry {!r} but the model has counts {}".format(
                where, k, sup.stoichiometry(), [len(l) for l in m.order]))

    def check_all(self, where, quiet=False):
        for k in range(len(self.objs)):
            self.check_obj(k, where, quiet)
            self.note_state(self.world["class"], self.models[k].key())

    def expect_reject(self, k, call, exctypes, what):
        """A rejected op must raise one of exctypes and leave every object unchanged."""
        try:
            call()
        except exctypes:
            self.faults["reject-" + what] += 1
            try:
                self.check_all("after rejected " + what)
            except Violation as v:
                raise Violation(PROP, "reject-changed-state", v.detail)
            return "rejected"
        except Exception as e:
            self.fail("reject-wrong-exception", "{} raised {}: {}".format(what, type(e).__name__, e))
        self.fail("reject-not-raised", "{} was accepted".format(what))

    def place(self, src_k, dst):
        """Put a new object into the population (append or replace slot `dst`)."""
        sup, m = src_k
        if dst >= len(self.objs) and len(self.objs) < MAXOBJ:
            self.objs.append(sup)
            self.models.append(m)
        else:
            d = dst % len(self.objs)
            self.objs[d], self.models[d] = sup, m

    # ---- generator --------------------------------------------------------
    def propose(self, rng):
        op = self.propose_inner(rng)
        x = rng.random()
        if x < 0.15:
            op["kw"] = 1        # the same call with keyword arguments
        elif x < 0.30:
            op["omit"] = 1      # ... or leaving out arguments that have documented defaults
        if self.world.get("quiet") and rng.random() < self.world["quiet"]:
            op["q"] = 1
        return op

    def propose_inner(self, rng):
        nobj = len(self.objs)
        k = rng.randrange(nobj)
        m = self.models[k]
        x = rng.random()
        if x < 0.40:
            # occupancy edit; mostly valid, sometimes a species/index that must be rejected
            y = rng.random()
            if y < 0.80:
                c = rng.randrange(-1, self.nchem)
            elif y < 0.95:
                c = rng.choice([-3, -2, self.nchem, self.nchem + 1])
            else:
                c = rng.randrange(-1, self.nchem)
            i = rng.randrange(self.nsites) if (y < 0.95) else self.nsites + rng.randrange(3)
            by = rng.choice(["index", "item", "pos", "pos"])
            op = {"op": "setocc", "obj": k, "i": i, "c": c, "by": by}
            if rng.random() < 0.3:
                op["npint"] = 1
            if by == "pos":
                op["shift"] = [rng.choice((-1, 0, 0, 1)) for _ in range(3)]
                op["jit"] = rng.choice((0, 0, rng.randrange(1, 1000)))
            return op
        if x < 0.47:
            if rng.random() < 0.85:
                ci = list(rng.choice(self.atomindices))
            else:
                ci = [rng.randrange(self.ncrys + 1), rng.randrange(4)]
            return {"op": "fill", "obj": k, "ci": ci, "wyckoff": rng.random() < 0.5}
        if x < 0.57:
            mp = []
            bad = rng.random() < 0.25
            for l in m.order:
                p = list(range(len(l)))
                rng.shuffle(p)
                mp.append(p)
            if bad:
                cands = [c for c, l in enumerate(m.order) if len(l) >= 1]
                if cands:
                    c = rng.choice(cands)
                    how = rng.random()
                    if how < 0.5 and len(mp[c]) >= 2:
                        mp[c][0] = mp[c][1]            # duplicate entry
                    elif how < 0.65 and len(mp[c]) >= 2:
                        # entries that are distinct as numbers but alias as list indices: k together with k - n
                        a, b = rng.sample(range(len(mp[c])), 2)
                        mp[c][b] = mp[c][a] - len(mp[c])
                    elif how < 0.8:
                        mp[c][rng.randrange(len(mp[c]))] = len(mp[c]) + rng.randrange(2)  # out of range
                    else:
                        mp[c] = mp[c][:-1]            # too short
            if bad and rng.random() < 0.3:
                # a second fault in a LATER species' map: too short, or an entry out of range
                later = [c2 for c2 in range(len(mp)) if len(mp[c2]) >= 1]
                if later:
                    c2 = later[-1]
                    if rng.random() < 0.5:
                        mp[c2] = mp[c2][:-1]
                    else:
                        mp[c2][rng.randrange(len(mp[c2]))] = len(mp[c2]) + 1
            op = {"op": "reorder", "obj": k, "map": mp}
            if not bad and rng.random() < 0.2:
                # maps longer than the species lists (a zero-padded rectangular table): the documented formula reads
                # only the first len(list) entries of each map
                width = max([len(x) for x in mp] + [1]) + rng.randrange(0, 3)
                op["map"] = [list(x) + [0] * (width - len(x)) for x in mp]
                op["rect"] = rng.random() < 0.5
            return op
        if x < 0.65:
            op = {"op": "imul", "obj": k, "g": rng.randrange(len(self.glist))}
            if rng.random() < 0.35:
                op["g2"] = rng.randrange(len(self.glist))
            if rng.random() < 0.25:
                op["inv"] = 1
            return op
        if x < 0.71:
            op = {"op": "mul", "obj": k, "g": rng.randrange(len(self.glist)), "side": rng.choice("lr"),
                  "to": rng.randrange(MAXOBJ)}
            if rng.random() < 0.35:
                op["g2"] = rng.randrange(len(self.glist))
            if rng.random() < 0.25:
                op["inv"] = 1
            return op
        if x < 0.78:
            return {"op": "copy", "obj": k, "to": rng.randrange(MAXOBJ),
                    "how": rng.choice(("copy", "copy", "copy", "deepcopy", "pickle"))}
        if x < 0.93:
            dst = rng.choice(["self", "fresh", "fresh", rng.randrange(nobj)])
            return {"op": "poscar", "src": k, "dst": dst, "empty": rng.random() < 0.7,
                    "dialect": rng.choice(DIALECTS), "k": rng.randrange(1 << 30),
                    "named": rng.random() < 0.5, "stoich": rng.random() < 0.7,
                    "thresholds": rng.choice(("default", "default", "disp", "latt", "both"))}
        if x < 0.945:
            return {"op": "badposcar", "src": k, "dst": rng.randrange(nobj), "empty": rng.random() < 0.7,
                    "kind": rng.choice(("truncate", "extra-column", "far-atom", "garbage", "duplicate")), "k": rng.randrange(1 << 20)}
        if x < 0.96:
            return {"op": "read", "obj": k, "i": rng.randrange(self.nsites), "how": rng.choice(("item", "pos", "slice", "index", "occpos")),
                    "shift": [rng.choice((-1, 0, 1)) for _ in range(3)]}
        c = rng.randrange(self.ncrys, self.nchem) if (self.nchem > self.ncrys and rng.random() < 0.8) \
            else rng.randrange(-1, self.nchem + 2)
        # names: new elements, a repeated name, or the name of a species that is already there (a tracer)
        return {"op": "definesolute", "obj": k, "c": c,
                "name": rng.choice(["X", "Y", "Zr", "X"] + [str(n) for n in self.base.crys.chemistry])}

    # ---- executor ---------------------------------------------------------
    def apply(self, index, op):
        kind = op["op"]
        obs = getattr(self, "op_" + kind)(op)
        # unobserved steps ("q"): the oracle only reads occ/chemorder; it calls no method of the objects, so that
        # stretches of the history contain exactly the calls of the scripted editor
        if op.get("q"):
            self.probes["unobserved-op"] += 1
        self.check_all("after " + kind, quiet=bool(op.get("q")))
        return "{}:{}".format(obs, ";".join("".join("v" if c < 0 else str(c) for c in m.occ) + "/" +
                                            ",".join(".".join(map(str, l)) for l in m.order)
                                            for m in self.models))

    def op_setocc(self, op):
        k = op["obj"] % len(self.objs)
        sup, m = self.objs[k], self.models[k]
        i, c, by = op["i"], op["c"], op["by"]
        valid_i, valid_c = 0 <= i < self.nsites, -1 <= c < self.nchem
        # site index and species arrive as Python ints or as numpy integers (what indexing a numpy array yields)
        ii, cc = (np.int64(i), np.int64(c)) if op.get("npint") else (i, c)
        if op.get("npint"):
            self.probes["numpy-integer-arguments"] += 1
        if by == "pos" and valid_i:
            pos = sup.pos[i] + np.array(op.get("shift", [0, 0, 0]), dtype=float)
            if op.get("jit"):
                pos = pos + random.Random(op["jit"]).uniform(-1e-3, 1e-3) * np.ones(3)

            def call():
                sup[pos] = cc
        elif by == "item":
            def call():
                sup[ii] = cc
        else:
            def call():
                if op.get("kw"):
                    sup.setocc(c=cc, ind=ii)
                else:
                    sup.setocc(ii, cc)
        if self.relatives:
            self.faults["edit-with-live-copy"] += 1
        if valid_i and valid_c:
            if c == self.nchem - 1 and self.nchem > self.ncrys:
                self.probes["last-declared-solute-placed"] += 1
            if c == -1:
                self.probes["vacancy-placed"] += 1
            try:
                call()
            except IndexError as e:
                self.fail("accept-raised", "declared species {} at valid site {} was rejected: {}".format(c, i, e))
            m.setocc(i, c)
            return "ok"
        what = "species" if valid_i else "index"
        return self.expect_reject(k, call, (IndexError,), what)

    def op_read(self, op):
        """Read accessors must report what the model holds (and change nothing)."""
        k = op["obj"] % len(self.objs)
        sup, m = self.objs[k], self.models[k]
        i = op["i"] % self.nsites
        how = op["how"]
        self.checks += 1
        if how == "item":
            got, want = int(sup[i]), m.occ[i]
        elif how == "pos":
            pos = sup.pos[i] + np.array(op.get("shift", [0, 0, 0]), dtype=float)
            got, want = int(sup[pos]), m.occ[i]
        elif how == "slice":
            got, want = [int(x) for x in sup[i:i + 3]], m.occ[i:i + 3]
        elif how == "index":
            got, want = sup.index(sup.pos[i] + np.array(op.get("shift", [0, 0, 0]), dtype=float)), i
        else:
            got = [[tuple(np.round(u, 12)) for u in l] for l in sup.occposlist()]
            want = [[tuple(np.round(sup.pos[j], 12)) for j in l] for l in m.order]
        if got != want:
            self.fail("read-model", "{} read of site {} gives {} but the model says {}".format(how, i, got, want))
        return "read"

    def op_fill(self, op):
        k = op["obj"] % len(self.objs)
        sup, m = self.objs[k], self.models[k]
        ci = tuple(op["ci"])
        if ci not in self.atomindices:
            return self.expect_reject(k, lambda: sup.fillperiodic(ci, op["wyckoff"]), (IndexError,), "fill")
        if op.get("kw"):
            ret = sup.fillperiodic(Wyckoff=op["wyckoff"], ci=ci)
        elif op["wyckoff"] and op.get("omit"):
            ret = sup.fillperiodic(ci)            # Wyckoff=True is the default
        else:
            ret = sup.fillperiodic(ci, op["wyckoff"])
        if ret is not sup:
            self.fail("api", "fillperiodic did not return self")
        ind = self.atomindices.index(ci)
        inds = (ind,)
        if op["wyckoff"]:
            for ws in self.base.crys.Wyckoff:
                if ci in ws:
                    inds = sorted(self.atomindices.index(x) for x in ws)
        # the documented effect: all (Wyckoff) sites of every cell get chemistry ci[0]; the order in which
        # a set of sites is visited is not documented, so take it from the object and require a permutation
        want = set(n * self.base.N + i for n in range(self.base.size) for i in inds)
        before = [i for i in m.order[ci[0]]]
        after = [int(i) for i in sup.chemorder[ci[0]]]
        new = after[len(before):]
        if after[:len(before)] != before or set(new) != (want - set(before)) or len(new) != len(set(new)):
            self.fail("fill", "fillperiodic({},{}) gave order {} from {} (sites {})".format(
                ci, op["wyckoff"], after, before, sorted(want)))
        for i in new:
            m.setocc(i, ci[0])
        if len(inds) > 1:
            self.probes["multi-site-wyckoff-fill"] += 1
        return "ok"

    def op_reorder(self, op):
        k = op["obj"] % len(self.objs)
        sup, m = self.objs[k], self.models[k]
        mp = op["map"]
        if len(mp) != self.nchem:
            return "skip"
        # model of the documented semantics: new[c][i] = old[c][map[c][i]]; must be a permutation
        new, bad = [], None
        negative = False
        for l, p in zip(m.order, mp):
            if len(p) < len(l) or any((not isinstance(j, int)) or j < -len(l) or j >= len(l) for j in p[:len(l)]):
                bad = "range"
                break
            negative = negative or any(j < 0 for j in p[:len(l)])
            nl = [l[p[i]] for i in range(len(l))]      # the documented formula, with Python's list indexing
            if sorted(nl) != sorted(l):
                bad = bad or "dup"
            new.append(nl)
        if bad is None and negative:
            # a proper permutation written with negative indices: the documented formula accepts it, an
            # implementation that validates 0 <= index < n may refuse it; both are fine -- if it is refused the
            # object must be unchanged, if it is accepted the formula applies
            try:
                sup.reorder(mp)
            except (ValueError, IndexError):
                self.check_all("after refused negative-index reorder")
                return "refused"
            m.order = new
            self.probes["negative-index-permutation-accepted"] += 1
            return "ok"
        if bad == "range":
            return self.expect_reject(k, lambda: sup.reorder(mp), (ValueError, IndexError), "reorder")
        if bad == "dup":
            return self.expect_reject(k, lambda: sup.reorder(mp), (ValueError,), "reorder")
        if any(len(p_) > len(l_) for l_, p_ in zip(m.order, mp)):
            self.probes["reorder-map-longer-than-list"] += 1
        arg = np.array(mp, dtype=int) if (op.get("rect") and len(set(len(x) for x in mp)) == 1 and mp and len(mp[0]) > 0) else mp
        ret = sup.reorder(mapping=arg) if op.get("kw") else sup.reorder(arg)
        if ret is not sup:
            self.fail("api", "reorder did not return self")
        m.order = new
        if any(len(l) > 1 for l in new):
            self.probes["nontrivial-reorder"] += 1
        return "ok"

    def _gmodel(self, m, g):
        im = g.indexmap[0]
        m2 = m.copy()
        for i, gi in enumerate(im):
            m2.occ[gi] = m.occ[i]
        m2.order = [[im[i] for i in l] for l in m.order]
        return m2

    def _groupop(self, op):
        """The operation of an imul/mul op: a member of sup.G, or a TEMPORARY built from members (a product or an
        inverse -- the group is closed, so these are operations of the supercell too, but they are new objects that
        die right after use)."""
        g = self.glist[op["g"] % len(self.glist)]
        if op.get("g2") is not None:
            g = g * self.glist[op["g2"] % len(self.glist)]
            self.probes["temporary-groupop-product"] += 1
        if op.get("inv"):
            g = g.inv()
            self.probes["temporary-groupop-inverse"] += 1
        return g

    def op_imul(self, op):
        k = op["obj"] % len(self.objs)
        g = self._groupop(op)
        sup = self.objs[k]
        sup *= g
        if sup is not self.objs[k]:
            self.fail("api", "*= returned a different object")
        self.models[k] = self._gmodel(self.models[k], g)
        if g.indexmap[0] != tuple(range(self.nsites)):
            self.probes["nontrivial-groupop"] += 1
        return "ok"

    def op_mul(self, op):
        k = op["obj"] % len(self.objs)
        g = self._groupop(op)
        sup = self.objs[k]
        new = g * sup if op["side"] == "l" else sup * g
        if new is sup:
            self.fail("alias", "g*sup returned the same object")
        self.place((new, self._gmodel(self.models[k], g)), op["to"])
        self.relatives = True
        self.faults["copy-made"] += 1
        return "ok"

    def op_copy(self, op):
        k = op["obj"] % len(self.objs)
        how = op.get("how", "copy")
        if how == "copy":
            new = self.objs[k].copy()
        else:
            # the other ways a Python user duplicates (or checkpoints and restores) an object
            import pickle
            try:
                new = copy.deepcopy(self.objs[k]) if how == "deepcopy" else pickle.loads(pickle.dumps(self.objs[k]))
            except Exception:
                self.probes["duplicate-unsupported-" + how] += 1     # nothing is claimed about it
                return "unsupported"
            self.probes["duplicated-by-" + how] += 1
        if not (new == self.objs[k]):
            self.fail("alias", "copy() != original")
        self.place((new, self.models[k].copy()), op["to"])
        self.relatives = True
        self.faults["copy-made"] += 1
        return "ok"

    def op_definesolute(self, op):
        k = op["obj"] % len(self.objs)
        sup, m = self.objs[k], self.models[k]
        c, name = op["c"], op["name"]
        if self.ncrys <= c < self.nchem:
            sup.definesolute(c, name)
            m.chem[c] = name
            return "ok"
        return self.expect_reject(k, lambda: sup.definesolute(c, name), (IndexError,), "definesolute")

    def op_poscar(self, op):
        s = op["src"] % len(self.objs)
        src, ms = self.objs[s], self.models[s]
        title = "cell{}".format(op["k"] % 97) if op.get("named") else None
        kw = {} if op.get("stoich", True) else {"stoichiometry": False}
        text = src.POSCAR(title, **kw) if title is not None else src.POSCAR(**kw)
        if not op.get("stoich", True):
            self.probes["poscar-without-stoichiometry"] += 1
        # the text must say what the model says (peer-side parse; independent of POSCAR_occ)
        name, a0, latt, counts, mode, coords = parse_poscar(text)
        self.checks += 1
        # which species does each count column describe? by name if the writer gives names, else by position
        # (the reader's own convention); columns may be fewer than the declared species if the rest is empty
        names = parse_poscar.names
        if names is not None and all(n in ms.chem for n in names) and len(set(names)) == len(names):
            cols = [ms.chem.index(n) for n in names]
        else:
            cols = list(range(len(counts)))
        described = [0] * self.nchem
        ok = len(cols) == len(counts) and all(0 <= c < self.nchem for c in cols)
        if ok:
            for c, n in zip(cols, counts):
                described[c] += n
        if not ok or described != [len(l) for l in ms.order]:
            self.fail("poscar-text", "POSCAR describes species counts {} (columns {}) but the model has {}".format(
                counts, names or "by position", [len(l) for l in ms.order]))
        flat = [i for c in cols for i in ms.order[c]]
        for u, i in zip(coords, flat):
            if not np.allclose(u, src.pos[i], atol=1e-12):
                self.fail("poscar-text", "POSCAR lists {} where site {} = {} is expected".format(u, i, src.pos[i]))
        if not np.allclose(np.array(latt).T * a0, src.lattice, atol=1e-12):
            self.fail("poscar-text", "POSCAR lattice differs from supercell lattice")
        text2, used = peer_rewrite(text, op["dialect"], op["k"], ms.chem, self.nchem)
        if used != "plain":
            self.faults["dialect-" + used] += 1
        dst = op["dst"]
        empty = bool(op["empty"])
        if dst == "fresh":
            tgt, mt = pristine_cell(self.base), Model(self.nsites, self.nchem, self.base.chemistry)
            for c in range(self.ncrys, self.nchem):
                if ms.chem[c]:
                    tgt.definesolute(c, ms.chem[c])
                    mt.chem[c] = ms.chem[c]
            fresh = True
        elif dst == "self":
            tgt, mt, fresh = src, ms, False
        else:
            d = dst % len(self.objs)
            tgt, mt, fresh = self.objs[d], self.models[d], False
        if used == "names" and mt.chem != ms.chem:
            # the reader resolves names through its own table; only meaningful if the tables agree
            text2, used = text, "plain"
        if not empty and any(c != -1 for c in mt.occ):
            self.faults["overlay-read"] += 1
        okw = {}
        th = op.get("thresholds", "default")
        if th in ("disp", "both"):
            okw["disp_threshold"] = 0.04      # compared with a squared distance: sites are >= 0.1 apart, jitter <= 2e-4
        if th in ("latt", "both"):
            okw["latt_threshold"] = 0.01      # the lattice in the file is the supercell's own: must be accepted
        if okw:
            self.probes["poscar-explicit-thresholds"] += 1
        if op.get("kw"):
            got = tgt.POSCAR_occ(EMPTY_SUPER=empty, POSCAR_str=text2, **okw)
        elif empty and op.get("omit"):
            got = tgt.POSCAR_occ(text2, **okw)            # EMPTY_SUPER=True is the default
        else:
            got = tgt.POSCAR_occ(text2, empty, **okw)
        if got != name:
            self.fail("poscar-name", "POSCAR_occ returned {!r}, first line is {!r}".format(got, name))
        # model: optional emptying, then setocc in file order
        src_order = [list(l) for l in ms.order]
        if empty:
            for i in range(self.nsites):
                mt.setocc(i, -1)
        for c, l in enumerate(src_order):
            for i in l:
                mt.setocc(i, c)
        if fresh or empty:
            self.checks += 1
            if not (np.all(tgt.occ == src.occ) and tgt.chemorder == src.chemorder):
                self.fail("poscar-roundtrip", "read-back occ/chemorder differ from the source (dialect {})".format(used))
            if not (tgt == src) or (tgt != src):
                self.fail("poscar-roundtrip", "read-back supercell != source (dialect {})".format(used))
            self.probes["roundtrip-" + used] += 1
        if fresh:
            # check the fresh target against its model, then drop it
            self.objs.append(tgt)
            self.models.append(mt)
            try:
                self.check_obj(len(self.objs) - 1, "fresh POSCAR target")
            finally:
                self.objs.pop()
                self.models.pop()
        return "ok:" + used

    def op_badposcar(self, op):
        """A POSCAR read that fails part-way (file truncated, a species column the cell does not declare, an atom far
        from every site, a non-numeric token). C28 does not say what the cell holds afterwards -- only that occ and
        chemorder still describe ONE configuration; the model is re-synchronised from the object after the check."""
        s = op["src"] % len(self.objs)
        d = op["dst"] % len(self.objs)
        src, tgt, mt = self.objs[s], self.objs[d], self.models[d]
        lines = src.POSCAR("bad").split("\n")
        name, a0, latt, counts, mode, coords = parse_poscar("\n".join(lines))
        rnd = random.Random(op["k"])
        kind, kw = op["kind"], {}
        ncoord = sum(counts)
        body = [l for l in lines if l.strip()]
        if kind == "truncate" and ncoord >= 1:
            body = body[:-rnd.randrange(1, min(3, ncoord) + 1)]
        elif kind == "extra-column":
            for n, l in enumerate(body):
                if n >= 5 and all(tok.lstrip("-").isdigit() for tok in l.split()):
                    body[n] = l + " 1"
                    break
            body.append("0.5 0.5 0.5")
        elif kind == "duplicate" and ncoord >= 1:
            # a hand-made file that names one site twice: the count of the last species column raised by one and the
            # coordinates of an atom that is already listed appended (the host line was not deleted)
            for n, l in enumerate(body):
                if n >= 5 and all(tok.lstrip("-").isdigit() for tok in l.split()):
                    toks = l.split()
                    toks[-1] = str(int(toks[-1]) + 1)
                    body[n] = " ".join(toks)
                    first = n + 2
                    break
            body.append(body[first + rnd.randrange(ncoord)])
        elif kind == "far-atom" and ncoord >= 1:
            u = [float(x) for x in body[-1].split()[:3]]
            body[-1] = "{:.12f} {:.12f} {:.12f}".format(u[0] + 0.137, u[1] + 0.071, u[2] + 0.113)
            kw["disp_threshold"] = 1e-6
        else:
            body[-1] = "0.25 abc 0.5"
        text = "\n".join(body) + "\n"
        try:
            tgt.POSCAR_occ(text, EMPTY_SUPER=bool(op["empty"]), **kw)
            out = "accepted"
        except Exception as e:
            out = "raised " + type(e).__name__
        self.faults["malformed-poscar-" + kind + ("-accepted" if out == "accepted" else "-refused")] += 1
        if False:
            pass
        occ = [int(x) for x in tgt.occ]
        order = [[int(i) for i in l] for l in tgt.chemorder]
        self.checks += 1
        seen = {}
        for c, l in enumerate(order):
            for i in l:
                if i in seen or not (0 <= i < self.nsites) or occ[i] != c:
                    self.fail("insane", "after a failed POSCAR read ({}): occ/chemorder disagree at site {}".format(kind, i))
                seen[i] = c
        for i, c in enumerate(occ):
            if i not in seen and c != -1:
                self.fail("insane", "after a failed POSCAR read ({}): site {} has species {} but is in no list".format(kind, i, c))
        if not tgt.__sane__():
            self.fail("insane", "after a failed POSCAR read ({}): __sane__() is False".format(kind))
        mt.occ, mt.order = occ, order            # whatever (consistent) configuration the failed read left
        return out

    # ---- quiescent sweep --------------------------------------------------
    def finish(self):
        for k in range(len(self.objs)):
            self.op_poscar({"src": k, "dst": "fresh", "empty": True, "dialect": "plain", "k": 0})
        self.check_all("quiescent sweep")
        return "swept{}".format(len(self.objs))


class Engine(object):
    prop = PROP

    def __init__(self, prop, tier):
        assert prop == PROP
        self.tier = tier

    def draw_world(self, rng):
        c = rng.choice(CRYSTALS)
        s = rng.choice(sorted(k for k in SUPERS if k not in BIG))
        ns = rng.choice((0, 1, 1, 2, 2))
        inter = []
        if c == "fccint" and rng.random() < 0.7:
            inter = [1]
        if c == "intfirst" and rng.random() < 0.7:
            inter = [0]
        if c == "fcctet":
            inter = [1] if rng.random() < 0.7 else []
            s = rng.choice(("222", "222", "221", "conv4", "odd6"))
        if rng.random() < 0.04:
            c = rng.choice(("fcc", "fccint", "intfirst"))
            inter = []
            s = "big288" if self.tier == "thorough" and rng.random() < 0.3 else "big150"
        return {"crystal": c, "super": s, "Nsolute": ns, "interstitial": inter,
                "class": "{}/{}/s{}{}".format(c, s, ns, "i" if inter else ""), "quiet": rng.choice((0, 0, 0.5, 0.9)), "nosym": rng.random() < 0.08,
                "scale": rng.choice((1.0, 1.0, 1.0, 0.4, 3.5))}

    def draw_length(self, rng):
        return rng.choice((3, 8, 20, 40, 60, 100))

    def new_run(self, world):
        return Run(world)

    @staticmethod
    def shrink_op(op):
        """Simpler variants of one op (argument shrinking)."""
        if op["op"] == "setocc":
            if op.get("by") != "index":
                yield dict(op, by="index")
            if op.get("i", 0) > 0:
                yield dict(op, i=0)
        elif op["op"] == "poscar":
            if op.get("dialect") != "plain":
                yield dict(op, dialect="plain")
            if op.get("named"):
                yield dict(op, named=False)
        elif op["op"] in ("imul", "mul") and op.get("g", 0) > 0:
            yield dict(op, g=0)
