#!/venv/bin/python
"""Re-run the current checks against every kept seeded change (seeded/<id>/patch.diff) and refresh meta["ran"].
usage: tools/rerun_seeded.py [ids...]        (default: all)
Each patch is applied to a scratch worktree of /repo under /tmp (removed afterwards); /repo is never touched.
The demo is re-run too (must exit 0 on the clean tree and non-zero with the change). The repository suite is not
re-run (it was run when the change was accepted; see meta["suite"])."""
import glob, json, os, shutil, subprocess, sys, tempfile, time
VERIF = os.path.dirname(os.path.dirname(os.path.abspath(__file__)))


def sh(cmd, **kw):
    return subprocess.run(cmd, shell=True, capture_output=True, text=True, **kw)


def main():
    ids = sys.argv[1:] or sorted(os.path.basename(os.path.dirname(p)) for p in glob.glob(os.path.join(VERIF, "seeded", "*", "meta.json")))
    bad = 0
    for sid in ids:
        d = os.path.join(VERIF, "seeded", sid)
        meta = json.load(open(os.path.join(d, "meta.json")))
        props = [r["cmd"].split("./check ")[1].split()[0] for r in meta["ran"]]
        scratch = tempfile.mkdtemp(prefix="seedrerun-")
        wt = os.path.join(scratch, "repo")
        try:
            assert sh("git -C /repo worktree add --detach {} HEAD".format(wt)).returncode == 0
            os.makedirs(os.path.join(wt, "deliver"))
            shutil.copy(os.path.join(d, "demo.py"), os.path.join(wt, "deliver", "demo.py"))
            env = "cd {0} && PYTHONPATH={0} PYTHONHASHSEED=0 ".format(wt)
            meta["demo_clean_exit"] = sh(env + "timeout 900 /venv/bin/python deliver/demo.py").returncode
            a = sh("git -C {} apply {}".format(wt, os.path.join(d, "patch.diff")))
            meta["applies"] = a.returncode == 0
            if a.returncode != 0:
                print(sid, "PATCH DOES NOT APPLY", a.stderr[:200])
                bad += 1
                continue
            meta["demo_changed_exit"] = sh(env + "timeout 900 /venv/bin/python deliver/demo.py").returncode
            ran = []
            for p in props:
                t0 = time.time()
                c = sh("{}/check {} --no-evidence".format(VERIF, p), env=dict(os.environ, VERIF_REPO=wt))
                line = [l for l in c.stdout.splitlines() if l.startswith("violation:")]
                ran.append({"cmd": "VERIF_REPO=<scratch worktree with patch> ./check {} --no-evidence".format(p),
                            "exit": c.returncode, "wall_s": round(time.time() - t0, 1),
                            "violations": [l[:300] for l in line[:4]],
                            "tail": c.stdout[-300:] if c.returncode not in (0, 1) else ""})
            meta["ran"] = ran
            json.dump(meta, open(os.path.join(d, "meta.json"), "w"), indent=1)
            caught = any(r["exit"] == 1 for r in ran)
            okdemo = meta["demo_clean_exit"] == 0 and meta["demo_changed_exit"] != 0
            print("{}: {} demo {}/{} {}".format(sid, " ".join("{}={}".format(p, r["exit"]) for p, r in zip(props, ran)),
                                              meta["demo_clean_exit"], meta["demo_changed_exit"],
                                              "" if (caught and okdemo) else "<-- ATTENTION"), flush=True)
            bad += 0 if (caught and okdemo) else 1
        finally:
            sh("git -C /repo worktree remove --force {}".format(wt))
            shutil.rmtree(scratch, ignore_errors=True)
    print("rerun_seeded: {} of {} need attention".format(bad, len(ids)))
    return 1 if bad else 0


sys.exit(main())
