#!/venv/bin/python
"""Print the markdown tables of DESIGN.md section 12 from mutants/last_results.json and seeded/*/meta.json."""
import glob, json, os
V = os.path.dirname(os.path.dirname(os.path.abspath(__file__)))
res = json.load(open(os.path.join(V, "mutants", "last_results.json")))
idx = json.load(open(os.path.join(V, "mutants", "index.json")))
print("| mutant (mutants/<name>.patch) | what it changes | check | outcome | first oracle to fire (op) | runs failing / minimised |")
print("|---|---|---|---|---|---|")
for key in sorted(res):
    name, pid = key.split(":")
    r = res[key]
    fv = r.get("first_violation") or {}
    want = "no alarm expected" if r["want"] == 0 else "must be caught"
    out = ("silent (exit 0)" if r["exit"] == 0 else "VIOLATION (exit 1)" if r["exit"] == 1 else "exit {}".format(r["exit"]))
    out += "" if r["ok"] else " **unexpected**"
    print("| `{}` | {} | {} | {} | {} | {} |".format(name, r.get("desc") or idx.get(name, {}).get("desc", ""), pid, out,
          "`{}` ({})".format(fv.get("oracle"), fv.get("op_kind")) if fv else "-",
          "{} / {} -> {} ops".format(fv.get("runs"), fv.get("from"), fv.get("to")) if fv else "-"))
print()
def fmt(runs):
    return "; ".join("{} exit {}{}".format(r["cmd"].split("./check ")[1].split()[0], r["exit"],
                     (" (" + r["violations"][0].split("oracle=")[1].split(" ")[0] + "," + r["violations"][0].split(";")[1].replace("minimised", "") + ")") if r["violations"] else "")
                     for r in runs)
print("| seeded change | breaks | what was changed | needs | checks as they stood | checks now |")
print("|---|---|---|---|---|---|")
for f in sorted(glob.glob(os.path.join(V, "seeded", "*", "meta.json"))):
    m = json.load(open(f))
    before = m.get("ran_before_strengthening")
    if m.get("neutralised_by"):
        print("| `{}` | {} | {} | {} | {} | not applicable any more: neutralised by {} (its demo passes with the change applied) |".format(
            m["id"], m["breaks"], m.get("what_changed", ""), m.get("needs", ""),
            "(led to D9)" if "D9" in m["neutralised_by"] else "caught when delivered (C14 and C13 exit 1, before the repair)", m["neutralised_by"]))
        continue
    print("| `{}` | {} | {} | {} | {} | {} |".format(m["id"], m["breaks"], m.get("what_changed", ""), m.get("needs", ""),
          fmt(before) if before else "(same)", fmt(m["ran"])))
