"""Calibration (not a check): largest relative deviation of Lij between a pristine calculator and one rebuilt
from a reloaded crystal (image at NGF=2 -> loadhdf5 -> GFcalculator(3)), per input kind and omega2 mode.
Run with several PYTHONHASHSEED values; results quoted in DESIGN.md section 4.1."""
import sys, warnings, io
sys.path.insert(0,'/verif'); sys.path.insert(0,'/repo')
warnings.simplefilter('ignore')
import numpy as np, h5py
from engines import calcworld
from onsager import OnsagerCalc
names = calcworld.ALL_WORLDS
worst={}
for name in names:
  wd=calcworld.world_data(name)
  for N in (1,2):
    ref=wd.reference(N,3)
    f=h5py.File(io.BytesIO(wd.image(N,2)),'r'); sut=OnsagerCalc.VacancyMediated.loadhdf5(f['calc']); f.close()
    sut.GFcalc=sut.GFcalculator(3)
    if N==1:
        sut2=None
    for seed in (1,2,3):
        pool=calcworld.Pool(ref, seed, len(wd.sitelist))
        for k in range(len(pool)):
            for mode,thr in (('def',1e8),('small',0.0),('large',np.inf)):
                a=pool.arrays(ref,k); b=pool.arrays(sut,k)
                ref.clearcache(); sut.clearcache()
                L1=ref.Lij(*a,large_om2=thr); L2=sut.Lij(*b,large_om2=thr)
                x=np.concatenate([np.asarray(t).reshape(-1) for t in L1]); y=np.concatenate([np.asarray(t).reshape(-1) for t in L2])
                d=float(np.max(np.abs(x-y))/np.max(np.abs(x)))
                key=(pool.kind(k) if pool.extreme(k) else 'ordinary',mode)
                if d>worst.get(key,(0,))[0]: worst[key]=(d,name,N)
for k,v in sorted(worst.items()): print(k,'%.2e'%v[0],v[1:])
