"""MANIFEST.setup_cmd: verify that everything the checks need is importable offline; install jsonschema
from the local wheelhouse if it is missing (never from the network)."""
import importlib, subprocess, sys
need = ["numpy", "scipy", "h5py", "yaml", "numba"]
bad = []
for m in need:
    try:
        importlib.import_module(m)
    except Exception as e:
        bad.append("{}: {}".format(m, e))
try:
    import jsonschema  # noqa
except Exception:
    subprocess.call([sys.executable, "-m", "pip", "install", "--no-index", "--find-links",
                     "/opt/veriftools/wheels", "jsonschema"])
if bad:
    print("setup: missing modules:\n" + "\n".join(bad))
    sys.exit(1)
print("setup: ok (python {}, numpy, scipy, h5py, yaml, numba importable)".format(sys.version.split()[0]))
