#!/venv/bin/python
"""Regenerate /verif/mutants/*.patch from (file, old, new) edit specifications, using a scratch worktree of /repo.
Each mutant is a realistic change at a property's anchor that keeps the package importable. Usage:
    tools/make_mutants.py /tmp/wt/mut      (a scratch git worktree of /repo, clean)"""
import json, os, subprocess, sys
WT = sys.argv[1]
OUT = os.path.join(os.path.dirname(os.path.dirname(os.path.abspath(__file__))), "mutants")
M = {}
def mut(name, checks, desc, edits, no_alarm=False, args=None):
    M[name] = dict(checks=checks, desc=desc, edits=edits, no_alarm=no_alarm, args=args or [])

OC, GF, SC, CL, ST, PE = ("onsager/OnsagerCalc.py", "onsager/GFcalc.py", "onsager/supercell.py", "onsager/cluster.py",
                          "onsager/crystalStars.py", "onsager/PowerExpansion.py")
# ---------------- C14
mut("c14_return_cached_array", ["C14"], "re-introduce D1: Lij returns the cached L0vv object",
    [(OC, "        return L0vv.copy(), D0ss + L1ss", "        return L0vv, D0ss + L1ss")])
mut("c14_etav_not_copied", ["C14"], "re-introduce D7: the bias correction is cached by reference",
    [(OC, "            self.etavvalues[vTK] = etav.copy()\n", "            self.etavvalues[vTK] = etav\n")])
mut("c14_stale_vectorstars", ["C14"], "re-introduce D2: generate() keeps the old vector stars",
    [(OC, "        self.vkinetic = stars.VectorStarSet(self.kinetic)\n", "        self.vkinetic.generate(self.kinetic)\n")])
mut("c14_key_aliases_input", ["C14"], "re-introduce D3: cache key aliases the caller's arrays",
    [(OC, "betaene=np.array(bFV),", "betaene=bFV,"), (OC, "betaeneT=np.array(bFT0))", "betaeneT=bFT0)")])
mut("c14_key_ignores_site_energy", ["C14"], "cache key built without the vacancy site energies (only transition data)",
    [(OC, "betaene=np.array(bFV),", "betaene=np.zeros_like(bFV),"),
     (OC, "            self.GFcalc.SetRates(**(vTK._asdict()))", "            self.GFcalc.SetRates(vTK.pre, bFV, vTK.preT, vTK.betaeneT)")])
mut("c14_regrid_keeps_cache", ["C14"], "GFcalculator(n) no longer clears the cache when the k-mesh changes",
    [(OC, "        self.NGFmax= NGFmax\n        # empty dictionaries to store GF values: necessary if we're changing NGFmax\n        self.clearcache()\n",
          "        self.NGFmax= NGFmax\n")])
mut("c14_skip_setrates_if_close", ["C14"], "'same as last input' shortcut: skip SetRates when the key is allclose to the previous one",
    [(OC, "        if GF is None:\n            # calculate, and store in dictionary for cache:\n            self.GFcalc.SetRates(**(vTK._asdict()))\n",
          "        if GF is None:\n            # calculate, and store in dictionary for cache:\n            if getattr(self, '_lastvTK', None) is None or not (self._lastvTK[0] is self.GFcalc and self._lastvTK[1] == vTK):\n                self.GFcalc.SetRates(**(vTK._asdict()))\n            self._lastvTK = (self.GFcalc, vTK)\n")])
mut("c14_generate_keeps_cache", ["C14"], "generate() no longer clears the cache after re-ranging",
    [(OC, "        # empty dictionaries to store GF values\n        self.clearcache()\n", "")])
mut("c14_setrates_accumulates", ["C14"], "SetRates 'optimised' to scale the stored Taylor expansions in place",
    [(GF, "        self.omega_Taylor = sum(symmrate * expansion\n                                for symmrate, expansion in zip(self.symmrate, self.Taylorjumps))\n",
          "        for symmrate, expansion in zip(self.symmrate, self.Taylorjumps):\n            expansion *= symmrate\n        self.omega_Taylor = sum(expansion for expansion in self.Taylorjumps)\n")])
mut("c14_clearcache_partial", ["C14"], "clearcache() forgets the GF values (only clears the two small dicts)",
    [(OC, "        self.GFvalues, self.Lvvvalues, self.etavvalues = {}, {}, {}\n", "        self.Lvvvalues, self.etavvalues = {}, {}\n        if not hasattr(self, 'GFvalues'): self.GFvalues = {}\n")])
mut("c14_states_handed_out", ["C14"], "re-introduce D9: interactlist() returns the calculator's own PairState objects",
    [(OC, "        return [stars.PairState(i=PS.i, j=PS.j, R=PS.R.copy(), dx=PS.dx.copy())\n                for PS in (self.thermo.states[s[0]] for s in self.thermo.stars)]\n",
          "        return [self.thermo.states[s[0]] for s in self.thermo.stars]\n")])
# ---------------- C13
mut("c13_no_threshold", ["C13"], "re-introduce D6: loadhdf5 does not restore threshold",
    [(OC, "        diffuser.threshold = diffuser.crys.threshold\n", "")])
mut("c13_cache_values_misordered", ["C13", "C14"], "addhdf5 writes the Lvv cache values in reversed order relative to their keys",
    [(OC, "            HDF5group['Lvvvalues_vTK'], HDF5group['Lvvvalues_values'], HDF5group['Lvvvalues_splits'] = \\\n                vTKdict2arrays(self.Lvvvalues)\n",
          "            Lk, Lv, Ls = vTKdict2arrays(self.Lvvvalues)\n            HDF5group['Lvvvalues_vTK'], HDF5group['Lvvvalues_values'], HDF5group['Lvvvalues_splits'] = \\\n                Lk, Lv[::-1], Ls\n")])
mut("c13_tags_sorted_on_load", ["C13"], "loadhdf5 sorts each tag class (representative = first element changes)",
    [(OC, "            diffuser.tags[tag] = stars.flatlistindex2doublelist(utf8list, HDF5group[tag + '_tagindex'])\n",
          "            diffuser.tags[tag] = [sorted(tl) for tl in stars.flatlistindex2doublelist(utf8list, HDF5group[tag + '_tagindex'])]\n")])
mut("c13_taylor_load_transposed", ["C13"], "Taylor loadhdf5 returns each coefficient block with its two site axes swapped",
    [(PE, "            t3d.coefflist.append((n, l, c[()]))\n        return t3d\n", "            t3d.coefflist.append((n, l, np.ascontiguousarray(c[()].swapaxes(-1, -2))))\n        return t3d\n")])
mut("c13_gfcalc_load_kpts", ["C13"], "GFCrystalcalc.loadhdf5 re-normalises the k-point weights ('defensive' change)",
    [(GF, "        GFcalc.D, GFcalc.eta = 0, 0  # we don't yet know the diffusivity\n        return GFcalc\n",
          "        GFcalc.D, GFcalc.eta = 0, 0  # we don't yet know the diffusivity\n        GFcalc.wts = GFcalc.wts / np.sum(GFcalc.wts) * (1 + 1e-7)\n        return GFcalc\n")])
mut("c13_starset_load_index", ["C13"], "StarSet.loadhdf5 stores the state index where the star index belongs in its lookup table",
    [(ST, "            SSet.indexdict[SSet.states[xi]] = (xi, si)\n        return SSet\n", "            SSet.indexdict[SSet.states[xi]] = (xi, xi)\n        return SSet\n")])
# ---------------- C28
mut("c28_range_check", ["C28"], "re-introduce D4", [(SC, "        if c < -1 or c >= self.Nchem:\n", "        if c < -2 or c > self.crys.Nchem:\n")])
mut("c28_copy_shares_chemorder", ["C28"], "copy() shares chemorder lists with the original (shallow copy)",
    [(SC, "        for attr in self.__copyattr__: setattr(supercopy, attr, copy.deepcopy(getattr(self, attr)))\n",
          "        for attr in self.__copyattr__: setattr(supercopy, attr, copy.copy(getattr(self, attr)))\n")])
mut("c28_reorder_no_restore", ["C28"], "reorder() does not restore the old order when the mapping is rejected",
    [(SC, "        if not self.__sane__():\n            self.chemorder = oldorder\n            raise ValueError", "        if not self.__sane__():\n            raise ValueError")])
mut("c28_imul_inverse_order", ["C28"], "*= g maps chemorder with the inverse permutation",
    [(SC, "        self.chemorder = [[indexmap[ind] for ind in clist] for clist in self.chemorder]\n",
          "        invmap = {g: i for i, g in enumerate(indexmap)}\n        self.chemorder = [[invmap[ind] for ind in clist] for clist in self.chemorder]\n")])
mut("c28_poscar_occ_clear_fast", ["C28"], "POSCAR_occ empties the cell by resetting occ only (chemorder kept)",
    [(SC, "            for n in range(self.N * self.size):\n                self.setocc(n, -1)\n", "            self.occ[:] = -1\n")])
mut("c28_setocc_same_species_reappend", ["C28"], "setocc re-appends a site when it already holds that species",
    [(SC, "        corig = self.occ[ind]\n        if corig != c:\n            if corig >= 0:", "        corig = self.occ[ind]\n        if True:\n            if corig >= 0 and corig != c:")])
mut("c28_cart_scaled", ["C28"], "Cartesian POSCAR coordinates converted with the unscaled cell only when a0 == 1 (wrong branch for Direct with a0 != 1)",
    [(SC, "                if cart_coord:\n                    uvec = np.dot(super_inv, uvec)\n", "                if cart_coord or a0 != 1.0:\n                    uvec = np.dot(super_inv, uvec)\n")])
# ---------------- C33
mut("c33_update_forgets_set", ["C33"], "update() does not add a newly occupied site to occupied_set",
    [(CL, "                self.unoccupied_set.remove(i)\n                self.occupied_set.add(i)\n", "                self.unoccupied_set.remove(i)\n")])
mut("c33_trial_multisite", ["C33"], "deltaE_trial: an interaction is 'turned on' when its count is 1 (not when it equals the change)",
    [(CL, "            elif self.clustercount[interact] == dcount:\n                dE += self.interactvalue[interact]\n        return dE\n",
          "            elif self.clustercount[interact] == 1:\n                dE += self.interactvalue[interact]\n        return dE\n")])
mut("c33_start_accumulates", ["C33"], "start() reuses the clustercount array of a previous start without zeroing",
    [(CL, "        self.clustercount = np.zeros_like(self.interactvalue, dtype=int)\n        occ_list, unocc_list = [], []\n",
          "        if self.clustercount is None:\n            self.clustercount = np.zeros_like(self.interactvalue, dtype=int)\n        occ_list, unocc_list = [], []\n")])
mut("c33_update_redundant", ["C33"], "update() trusts the caller: occupies listed sites without checking they are empty",
    [(CL, "        for i in occsites:\n            if self.occ[i] == 0:\n                self.occ[i] = 1\n                self.unoccupied_set.remove(i)",
          "        for i in occsites:\n            if self.occ[i] != 1 or True:\n                self.occ[i] = 1\n                self.unoccupied_set.discard(i)")])
# ---------------- C34
mut("c34_half_factor", ["C34"], "vacancy jump evaluator uses 0.4 instead of 0.5 for the vacancy-cluster end-point energies",
    [(SC, "                        vacclusterinteract[civ].append((mobilesites, specsites, 0.5 * value))\n", "                        vacclusterinteract[civ].append((mobilesites, specsites, 0.4 * value))\n")])
mut("c34_revmap", ["C34"], "vacancy jump evaluator: final-state vacancy clusters are not mapped through the swapped endpoint",
    [(SC, "                                      [(ms, ss, +val, Rj, rev_map) for (ms, ss, val) in vacclusterinteract[cj0]] + \\\n",
          "                                      [(ms, ss, +val, Rj, init_map) for (ms, ss, val) in vacclusterinteract[cj0]] + \\\n")])
mut("c34_ts_reverse_missing", ["C34"], "jump evaluator registers TS clusters for the forward direction only",
    [(SC, "                    TS1 = (TS[1] - R1, TS[0] - R1)\n                    if TS1 in TSclusterinteract:\n                        TSclusterinteract[TS1].append((mobilesites, specsites, value))\n                    else:\n                        TSclusterinteract[TS1] = [(mobilesites, specsites, value)]\n",
          "                    TS1 = (TS[1] - R1, TS[0] - R1)\n")])
mut("c34_transitions_stale_occ", ["C34"], "transitions() filters forbidden jumps with the initial site only",
    [(CL, "                if self.occ[i] == 0 or self.occ[j] == 1:\n                    continue\n", "                if self.occ[i] == 0:\n                    continue\n")])
mut("c34_supercell_memo_ignores_vacancy", ["C34"], "ClusterSupercell.clusterevaluator memoises its result per (spectator occupation, values) and forgets that the vacancy position is an input too",
    [(SC, "        E0 = 0\n        if len(values) > len(clusters):\n            E0 = self.size * values[-1]\n        Ninteract = 0\n        interact, interdict = [], {}\n        siteinteract = [[] for n in range(self.Nmobile * self.size)]\n",
          "        memokey = (tuple(int(x) for x in socc), tuple(float(v) for v in values), len(clusters))\n        if getattr(self, '_evalmemo', None) is not None and self._evalmemo[0] == memokey:\n            return [list(x) for x in self._evalmemo[1]], list(self._evalmemo[2])\n        E0 = 0\n        if len(values) > len(clusters):\n            E0 = self.size * values[-1]\n        Ninteract = 0\n        interact, interdict = [], {}\n        siteinteract = [[] for n in range(self.Nmobile * self.size)]\n"),
     (SC, "        # add on our constant term\n        interact.append(E0)\n        return siteinteract, interact\n\n    def jumpnetworkevaluator(self",
          "        # add on our constant term\n        interact.append(E0)\n        self._evalmemo = (memokey, [list(x) for x in siteinteract], list(interact))\n        return siteinteract, interact\n\n    def jumpnetworkevaluator(self")])
mut("c33_supercell_memo_ignores_values", ["C33"], "ClusterSupercell.clusterevaluator memoises the interaction table per supercell object, keyed by the cluster list only (values and spectator occupation of the first caller are reused)",
    [(SC, "        E0 = 0\n        if len(values) > len(clusters):\n            E0 = self.size * values[-1]\n        Ninteract = 0\n        interact, interdict = [], {}\n        siteinteract = [[] for n in range(self.Nmobile * self.size)]\n",
          "        memokey = (id(clusters), len(clusters), self.vacancy)\n        if getattr(self, '_evalmemo', None) is not None and self._evalmemo[0] == memokey:\n            return [list(x) for x in self._evalmemo[1]], list(self._evalmemo[2])\n        E0 = 0\n        if len(values) > len(clusters):\n            E0 = self.size * values[-1]\n        Ninteract = 0\n        interact, interdict = [], {}\n        siteinteract = [[] for n in range(self.Nmobile * self.size)]\n"),
     (SC, "        # add on our constant term\n        interact.append(E0)\n        return siteinteract, interact\n\n    def jumpnetworkevaluator(self",
          "        # add on our constant term\n        interact.append(E0)\n        self._evalmemo = (memokey, [list(x) for x in siteinteract], list(interact))\n        return siteinteract, interact\n\n    def jumpnetworkevaluator(self")])
# ---------------- C35
mut("c35_np_Inf", ["C35"], "re-introduce D5", [(CL, "self.jump_Q[n] = np.inf", "self.jump_Q[n] = np.Inf")])
mut("c35_param_dtypes", ["C35"], "re-introduce D8: MonteCarloSampler_param passes values and occupation with the reference sampler's dtypes",
    [(CL, "    param['interactvalue'] = np.asarray(MCsampler.interactvalue, dtype=float)\n", "    param['interactvalue'] = MCsampler.interactvalue\n"),
     (CL, "        occ = np.array(MCsampler.occ, dtype=int)\n", "        occ = MCsampler.occ.copy()\n")])
mut("c35_mcmoves_le", ["C35"], "MCmoves accepts ties (<= instead of <)", [(CL, "            if dE < kTlogu[i]:\n", "            if dE <= kTlogu[i]:\n")])
mut("c35_copy_shares_occ", ["C35"], "jit copy() shares the occ array",
    [(CL, "                                     self.occ.copy(), self.clustercount.copy(), self.dcluster.copy(),\n", "                                     self.occ, self.clustercount.copy(), self.dcluster.copy(),\n")])
mut("c35_update_index", ["C35"], "jit update() forgets to refresh index of the newly unoccupied site",
    [(CL, "        self.index[occsite] = j  # index of occsite in occupied_set\n        self.index[unoccsite] = i  # index of unoccsite in unoccupied_set\n",
          "        self.index[occsite] = j  # index of occsite in occupied_set\n")])
mut("c35_param_started_index", ["C35"], "MonteCarloSampler_param on a started sampler: vacancy index left at 0 instead of -1",
    [(CL, "            else:\n                index[i] = -1\n    param['occ'] = occ\n", "            else:\n                index[i] = 0\n    param['occ'] = occ\n")])
mut("c35_forbidden_zero", ["C35"], "jit transitions(): forbidden jumps keep their last finite barrier instead of +inf",
    [(CL, "            else:\n                # forbidden jump:\n                self.jump_Q[n] = np.inf\n", "            elif self.jump_Q[n] == 0.:\n                # forbidden jump:\n                self.jump_Q[n] = np.inf\n")])
# ---------------- behaviour-preserving rewrites: no alarm allowed
mut("ok_setocc_early_return", ["C28"], "setocc written with early returns (same behaviour)",
    [(SC, "        corig = self.occ[ind]\n        if corig != c:\n", "        corig = self.occ[ind]\n        if corig == c:\n            return\n        if True:\n")], no_alarm=True)
mut("ok_lij_copy_strategy", ["C14", "C13"], "Lij caches the original and returns np.array(copy) (different but correct copying)",
    [(OC, "            self.Lvvvalues[vTK] = L0vv.copy()\n", "            L0vv = np.array(L0vv)\n            self.Lvvvalues[vTK] = L0vv\n"),
     (OC, "        return L0vv.copy(), D0ss + L1ss", "        return np.array(L0vv, copy=True), D0ss + L1ss")], no_alarm=True)
mut("ok_cache_ordereddict", ["C14", "C13"], "caches are OrderedDicts", 
    [(OC, "        self.GFvalues, self.Lvvvalues, self.etavvalues = {}, {}, {}\n", "        self.GFvalues, self.Lvvvalues, self.etavvalues = collections.OrderedDict(), collections.OrderedDict(), collections.OrderedDict()\n")], no_alarm=True)
mut("ok_update_sets_rewrite", ["C33", "C35"], "sampler update() uses discard/add order swapped (same behaviour)",
    [(CL, "                self.unoccupied_set.remove(i)\n                self.occupied_set.add(i)\n", "                self.occupied_set.add(i)\n                self.unoccupied_set.discard(i)\n")], no_alarm=True)

def main():
    index = {}
    for name, m in sorted(M.items()):
        if any(old == "__FILL_BY_HAND__" for _, old, _ in m["edits"]):
            continue
        subprocess.run(["git", "-C", WT, "checkout", "--", "."], check=True)
        ok = True
        for path, old, new in m["edits"]:
            p = os.path.join(WT, path)
            s = open(p).read()
            if s.count(old) != 1:
                print("!! {}: pattern found {} times in {}".format(name, s.count(old), path)); ok = False; break
            open(p, "w").write(s.replace(old, new))
        if not ok:
            continue
        diff = subprocess.run(["git", "-C", WT, "diff"], capture_output=True, text=True).stdout
        open(os.path.join(OUT, name + ".patch"), "w").write(diff)
        index[name] = {"patch": name + ".patch", "checks": m["checks"], "desc": m["desc"], "no_alarm": m["no_alarm"], "args": m["args"]}
    subprocess.run(["git", "-C", WT, "checkout", "--", "."], check=True)
    json.dump(index, open(os.path.join(OUT, "index.json"), "w"), indent=1, sort_keys=True)
    print("wrote", len(index), "mutants")
main()
