#!/venv/bin/python
"""Confirm a seeded change delivered by a sub-agent and run our checks against it.
usage: tools/verify_seeded.py <deliver dir> <A|B> <seeded id> <property> [more properties...]
Everything happens in a scratch worktree of /repo under /tmp (removed afterwards); /repo is never touched."""
import json, os, re, shutil, subprocess, sys, tempfile, time
VERIF = os.path.dirname(os.path.dirname(os.path.abspath(__file__)))
deliver, which, sid = sys.argv[1:4]
props = sys.argv[4:]
diff = os.path.join(deliver, "change{}.diff".format(which))
demo = os.path.join(deliver, "demo{}.py".format(which))
scratch = tempfile.mkdtemp(prefix="seedverify-")
wt = os.path.join(scratch, "repo")
def sh(cmd, **kw):
    return subprocess.run(cmd, shell=True, capture_output=True, text=True, **kw)
meta = {"id": sid, "breaks": props[0], "ran": []}
try:
    assert sh("git -C /repo worktree add --detach {} HEAD".format(wt)).returncode == 0
    os.makedirs(os.path.join(wt, "deliver"))
    shutil.copy(demo, os.path.join(wt, "deliver", "demo.py"))
    env = "cd {0} && PYTHONPATH={0} PYTHONHASHSEED=0 ".format(wt)
    r0 = sh(env + "timeout 900 /venv/bin/python deliver/demo.py")
    meta["demo_clean_exit"] = r0.returncode
    a = sh("git -C {} apply {}".format(wt, diff))
    if a.returncode != 0:
        print("PATCH DOES NOT APPLY", a.stderr); meta["applies"] = False
    else:
        meta["applies"] = True
        r1 = sh(env + "timeout 900 /venv/bin/python deliver/demo.py")
        meta["demo_changed_exit"] = r1.returncode
        meta["demo_changed_tail"] = (r1.stdout + r1.stderr)[-400:]
        if "--skip-tests" not in sys.argv:
            t = sh(env + "timeout 3000 /venv/bin/python -m pytest -q -p no:cacheprovider -n 8 --continue-on-collection-errors test/ 2>&1 | tail -6")
            m = re.search(r"(\d+) failed, (\d+) passed.*?(\d+) error", t.stdout)
            meta["suite"] = t.stdout.strip().splitlines()[-1] if t.stdout.strip() else "?"
            failed = sorted(re.findall(r"^(?:FAILED|ERROR) (\S+)", t.stdout, re.M))
            meta["suite_failures"] = failed
            meta["suite_matches_baseline"] = bool(m and m.group(1) == "2" and m.group(2) == "291" and m.group(3) == "1")
        props = [p for p in props if not p.startswith("--")]
        def runchecks(cdir):
            out = []
            for p in props:
                t0 = time.time()
                c = sh("{}/check {} --no-evidence".format(cdir, p), env=dict(os.environ, VERIF_REPO=wt))
                line = [l for l in c.stdout.splitlines() if l.startswith("violation:")]
                out.append({"cmd": "VERIF_REPO=<scratch worktree with patch> ./check {} --no-evidence".format(p),
                            "exit": c.returncode, "wall_s": round(time.time() - t0, 1),
                            "violations": [l[:300] for l in line[:4]],
                            "tail": c.stdout[-300:] if c.returncode not in (0, 1) else ""})
            return out
        meta["ran"] = runchecks(os.environ.get("VERIF_CHECK_DIR", VERIF))
        if os.environ.get("VERIF_OLD_CHECK_DIR"):
            # the checks as they stood before this round (a worktree of /verif at an earlier commit)
            old = runchecks(os.environ["VERIF_OLD_CHECK_DIR"])
            if [r["exit"] for r in old] != [r["exit"] for r in meta["ran"]]:
                meta["ran_before_strengthening"] = old
            meta["old_checks_commit"] = os.environ.get("VERIF_OLD_COMMIT", "")
    out = os.path.join(VERIF, "seeded", sid)
    os.makedirs(out, exist_ok=True)
    shutil.copy(diff, os.path.join(out, "patch.diff"))
    shutil.copy(demo, os.path.join(out, "demo.py"))
    notes = os.path.join(deliver, "notes.md")
    if os.path.exists(notes):
        shutil.copy(notes, os.path.join(out, "agent_notes.md"))
    json.dump(meta, open(os.path.join(out, "meta.json"), "w"), indent=1)
    print(json.dumps(meta, indent=1))
finally:
    sh("git -C /repo worktree remove --force {}".format(wt))
    shutil.rmtree(scratch, ignore_errors=True)
