#!/venv/bin/python
"""Replace the two tables of DESIGN.md section 12 with the output of tools/gen_tables.py."""
import os, subprocess, sys
V = os.path.dirname(os.path.dirname(os.path.abspath(__file__)))
out = subprocess.run([sys.executable, os.path.join(V, "tools", "gen_tables.py")], capture_output=True, text=True, check=True).stdout
t1, t2 = out.strip().split("\n\n")
p = os.path.join(V, "DESIGN.md")
lines = open(p).read().split("\n")
def splice(lines, header_prefix, table):
    i = next(k for k, l in enumerate(lines) if l.startswith(header_prefix))
    j = i
    while j < len(lines) and lines[j].startswith("|"):
        j += 1
    return lines[:i] + table.split("\n") + lines[j:]
lines = splice(lines, "| mutant (mutants/<name>.patch)", t1)
lines = splice(lines, "| seeded change | breaks |", t2)
open(p, "w").write("\n".join(lines))
print("spliced", len(t1.split("\n")) - 2, "mutant rows,", len(t2.split("\n")) - 2, "seeded rows")
