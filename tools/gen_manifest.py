#!/venv/bin/python
"""Regenerate /verif/MANIFEST.json from the tables below and validate it against the schema."""
import json, os, sys
VERIF = os.path.dirname(os.path.dirname(os.path.abspath(__file__)))
BASE = json.load(open("/root/.vp/BASELINE.json"))

CLAIMED = {
 "C28": dict(engine="cellsim", design="4.3",
   text="Seeded deterministic simulation of edit histories on a population of live Supercell objects (copies and symmetry images of one another) against an executable reference model of occ/chemorder, with rejected edits, aliasing after copy, overlay reads, eight POSCAR dialects from a stub VASP peer, malformed POSCAR reads that fail part-way, temporaries as symmetry operations and pickle/deepcopy duplicates as injected faults, on cells of 1 to 32 sites and, rarely, 150 (thorough: 288) sites; a seeded share of the ops is unobserved (the oracle reads attributes but calls no method of the objects, so that it is not itself part of the history); every violation is minimised (ddmin) and replayed in a fresh interpreter. Sampling, not enumeration: a clean batch is evidence that no history of the explored shape breaks the bookkeeping, not a proof.",
   note="Trusted: the reference model's reading of the documented edit semantics (DESIGN 4.3); numpy; CPython. Only 3-D crystals (the class is 3-D only). Negative site indices and unresolvable positions are outside the documented input domain and are not generated.",
   technique="deterministic simulation: seeded op/fault histories vs executable reference model, ddmin + exact replay"),
 "C33": dict(engine="mcsim", design="4.4",
   text="Seeded deterministic simulation of long start/update/trial/reject histories on MonteCarloSampler in swarm-drawn worlds (crystals, supercells smaller than the cluster cutoff, vacancy, jump networks, dyadic or float interaction values); after every observed op the live sampler is compared with a sampler freshly started on the current occupation (energy, site sets, trial energy changes, transitions) and each observed update with the trial value announced before it; a seeded share of the ops is unobserved (no oracle call touches the sampler), trial moves are also performed late (after other updates), the live sampler is checkpointed and restored through pickle/deepcopy, released occupation buffers are recycled by the caller, and in shared-supercell worlds the sampler under test is built on a ClusterSupercell object that served a different (decoy) sampler first. Sampling of histories, not exhaustive reachability.",
   note="Trusted: MonteCarloSampler.start on a fresh object as the reference (exactly the statement of C33; agreement with a brute-force sum is C32 and is not claimed); numpy. 3-D worlds only.",
   technique="deterministic simulation: seeded histories, fresh-start reference sampler as oracle, ddmin + exact replay"),
 "C34": dict(engine="mcsim", design="4.5",
   text="Inside seeded sampler histories (so that transitions() reads incrementally maintained counts), reported transitions are performed and the reverse transition is looked up in the final configuration; barrier difference must equal the energy difference (exact for dyadic values) and the displacement must be opposite. With a vacancy the walk moves the vacancy through the cell via per-site samplers (in shared-supercell worlds all built on one ClusterSupercell object through addvacancy, after decoy samplers with other values or another jump-network layout). Worlds are admitted by a brute-force minimum-image predicate.",
   note="Trusted: E() of the sampler (its history-independence is C33's subject and is checked in the same runs); the minimum-image domain predicate of DESIGN 4.5. 3-D worlds only.",
   technique="deterministic simulation: seeded random walks through sampler states with forward/reverse barrier oracle, ddmin + exact replay"),
 "C35": dict(engine="mcsim", design="4.6",
   text="Lockstep deterministic simulation of MonteCarloSampler_jit (compiled machine code) against MonteCarloSampler over the same seeded history, with the Metropolis random stream injected through MCmoves' own arguments; compares energies, trial changes, occupation, site sets/index table, transitions (finite barriers equal, all others +inf) and batches against move-by-move application on a jit copy and on the reference. jit copies and second compiled samplers from the same reference with divergent histories check independence (state and returned arrays); batches of 2^15..2^17 rejected moves probe narrow counters; value styles include integer, 2^-40/2^40-scaled and +inf (hard-core) energies.",
   note="Trusted: the reference sampler (C33 checks it separately); numba's compilation of the class. Inputs the jit API leaves unspecified (non-swap moves) are not generated. kTlogu values within 1e-9 of a reference dE are nudged so round-off cannot flip an acceptance.",
   technique="deterministic simulation: lockstep differential execution under one seeded history with injected random stream, ddmin + exact replay"),
 "C14": dict(engine="calcsim", design="4.1",
   text="Seeded deterministic simulation of a long-lived VacancyMediated calculator driven by a scripted caller over a pool of cache-hazard inputs, with caller-induced faults (scribbling on returned arrays and on what the auxiliary and GF-calculator queries hand out, reuse of the caller's input buffers, failing calls, foreign SetRates, a sibling calculator evaluated in between, decoy GF calculators on the same Crystal object, input arrays prepared on a freshly constructed calculator, a lookalike calculator (same printed crystal, other symmetry analysis) loaded earlier and held, the caller editing the lists it handed to the constructor), cache clears, in-place re-ranging, re-gridding, and restart from HDF5 images held on an in-process simulated disk. Every Lij result is compared with a reference memo filled from a pristine calculator. Sampling of histories over a catalogue of 19 crystals (2-D, multi-site, origin-state, two-Wyckoff-set, low-symmetry, NOSYM and one with a sparse hand-picked jump network) and a pool that includes near-duplicate, doubled, tracer, large-omega2 and cold (rates ~1e-11) inputs.",
   note="Trusted: a pristine calculator evaluated once per (world, range, grid, input) as reference (audited against a brand-new object every 16th reference); h5py/HDF5 on a Python file object behaves like a real file; LAPACK. History-independent numerical errors are invisible by construction (that is C01).",
   technique="deterministic simulation: seeded call/fault/restart histories vs pristine-calculator reference memo on a simulated disk, ddmin + exact replay"),
 "C13": dict(engine="calcsim", design="4.2",
   text="Twin-mode deterministic simulation: at a seeded point of a calculator's history it is saved to the simulated disk in whatever state the history left it and reloaded; from then on every op is applied to original and copy in lockstep and all observables (Lij tensors, tags, interaction lists, printed form, supercells, the crystal's symmetry group) are compared pairwise; component round trips (GF calculators incl. stand-alone ones with 9-15 jump types and a disconnected network, star sets, vector stars, Taylor expansions incl. derived, separated and all-zero ones, YAML of value objects) run as further ops on the same disk. Storage faults are the legal ones only (restart, overwrite, append into a shared file, HDF5 group copy into another file, libver, closed source file).",
   note="Trusted: h5py/HDF5/PyYAML; after a rebuild op (regen/regrid) tensors are compared to 1e-8 relative and tags as class partitions because a reloaded crystal iterates its group in another order (DESIGN 4.2). Incomplete writes are outside the property (probe only).",
   technique="deterministic simulation: lockstep original-vs-reloaded twin under seeded histories on a simulated disk, ddmin + exact replay"),
}

NA = {
 "C01": "pure function of (crystal, jump network, energies): Lij vs an exact dilute-limit Markov chain needs input generation plus an independent numerical oracle; no schedule, fault or history in the statement (its only state, the GF cache, is C14's subject).",
 "C02": "Interstitial.diffusivity is stateless and GFCrystalcalc.D is a function of the rates just set: a pure numerical identity, nothing for a simulator to schedule or fault.",
 "C03": "symmetry / positive semidefiniteness / point-group invariance are predicates on the output of a pure function of its arguments.",
 "C04": "metamorphic relations between inputs of a pure function (reference shifts, prefactor/kT co-scaling, rate scaling); no history, clock or fault involved.",
 "C05": "monotonicity of a pure function in one argument (Rayleigh); decided by input generation, not by schedules or faults.",
 "C06": "tracer identities of pure outputs for one input family; no state or nondeterminism in the statement.",
 "C07": "compares two independently constructed calculators at different ranges: a pure function of (inputs, range); the in-place route between ranges is history and is covered under C14.",
 "C08": "two branches of a pure function selected by an argument (large_om2); agreement is a numerical identity over inputs.",
 "C09": "an input transformation (equivalent crystal descriptions) of a pure function; no history or fault.",
 "C10": "pure numerics of the lattice Green function for the rates just set; the SetRates-then-call statefulness is exercised under C14 (foreign_setrates, A-B-A histories).",
 "C11": "finite-difference derivative identities of a pure function.",
 "C12": "eigen-decomposition / sum-rule identities of a pure function.",
 "C15": "tag tables are fixed at construction and tags2preene is pure; nothing depends on call history.",
 "C16": "algebraic identities on Taylor-expansion value objects; the class-level tables are initialise-once constants, not a schedule.",
 "C17": "algebraic identities (rotation, inversion) on value objects; pure.",
 "C18": "a Crystal is immutable after construction; symmetry-group properties are pure group theory over inputs.",
 "C19": "cell reduction is a pure function of (lattice, basis).",
 "C20": "site symmetry / Wyckoff analysis is a pure function of the crystal.",
 "C21": "jump-network construction is a pure function of (crystal, cutoff).",
 "C22": "k-point mesh generation is a pure function of (crystal, mesh).",
 "C23": "coordinate conversions are pure functions with algebraic inverses.",
 "C24": "star sets are a pure function of (crystal, network, N) quantified over inputs; the in-place regeneration slice alone could be simulated but would not decide completeness, so it is not claimed (the route users take, VacancyMediated.generate, is decided under C14).",
 "C25": "vector-star completeness/orthonormality is a pure function of the star set; no history in the statement.",
 "C26": "omega1/omega2 networks are pure functions of the star set.",
 "C27": "supercell symmetry and equivalencemap are pure functions of two occupations.",
 "C29": "calculation-setup supercells are a pure function of (calculator, matrix); the 'must warn' clause depends on Python's warning filters, not on the library.",
 "C30": "the archive is a pure function of (superdict, timestamp); nothing in the property depends on when or how bytes are delivered or on the clock value, so it is an input->archive->extract round trip (property-based testing), not a simulation target. (automator cannot be imported in this sandbox: pkg_resources is gone.)",
 "C31": "cluster enumeration and identity are pure combinatorics over inputs.",
 "C32": "four evaluators compared with a brute-force sum are pure functions of (occupation, values); the sampler's history dependence is C33.",
 "C36": "equality/hash/arithmetic laws of immutable value types; algebraic laws over inputs.",
}

def main(built):
    checks = []
    for pid in sorted(CLAIMED):
        if pid not in built: continue
        c = CLAIMED[pid]
        checks.append({
          "property_id": pid,
          "quick_cmd": "./check {} --tier quick".format(pid),
          "thorough_cmd": "./check {} --tier thorough".format(pid),
          "evidence_file": "/verif/evidence/{}.json".format(pid),
          "replay_cmd_template": "./check {} --replay {{path}}".format(pid),
          "engine": c["engine"],
          "level_claimed": {"category": "exploration", "text": c["text"], "design_ref": "DESIGN.md section " + c["design"]},
          "level_note": c["note"], "technique": c["technique"]})
    na = [{"property_id": k, "reason": v} for k, v in sorted(NA.items())]
    for pid in sorted(CLAIMED):
        if pid not in built:
            na.append({"property_id": pid, "reason": "check not built yet (planned as a simulation target, DESIGN.md section " + CLAIMED[pid]["design"] + "); not claimed until it runs."})
    na.sort(key=lambda d: d["property_id"])
    engines = {}
    for pid in built:
        engines.setdefault(CLAIMED[pid]["engine"], []).append(pid)
    kinds = {"cellsim": "seeded op/fault history simulator for Supercell with executable reference model",
             "mcsim": "seeded history simulator for the Monte Carlo samplers (fresh-start, detailed-balance and jit-lockstep oracles)",
             "calcsim": "seeded history simulator for VacancyMediated on a simulated HDF5 disk (reference-memo and twin oracles)"}
    man = {
      "version": 1,
      "setup_cmd": "/venv/bin/python /verif/tools/setup_check.py",
      "hooks": {"guard": "ONSAGER_VERIF",
                "enable": "none needed: every seam is a public argument or a module attribute patched from /verif; checks export ONSAGER_VERIF=1 to their workers for uniformity. The repo is pure Python and is imported from VERIF_REPO (default /repo) working tree at every run.",
                "baseline_off_cmd": BASE["cmd"].replace("--junitxml=<file>", "--junitxml=/tmp/onsager-baseline.junit.xml"),
                "source_commits": [], "add_only": True},
      "engines": [{"name": n, "path": "/verif/engines/{}.py".format(n), "serves_properties": sorted(p), "kind_free_text": kinds[n]} for n, p in sorted(engines.items())],
      "checks": checks,
      "not_applicable": na,
      "notes": "Technique family: deterministic simulation with fault injection. One run = (property, PYTHONHASHSEED, VERIF_SEED, run index); workers are fresh interpreters with pinned hash seed and single-threaded BLAS/numba. Exit codes: 0 held, 1 VIOLATION, 2 harness error, 3 incomplete. Genuine defects repaired in /repo are listed in /verif/known_findings.json as fixed entries (which suppress nothing).",
    }
    import jsonschema
    jsonschema.validate(man, json.load(open("/root/.vp/MANIFEST.schema.json")))
    json.dump(man, open(os.path.join(VERIF, "MANIFEST.json"), "w"), indent=1)
    print("MANIFEST.json written: claimed", [c["property_id"] for c in checks], "n/a", len(na))

if __name__ == "__main__":
    main(sys.argv[1:])
